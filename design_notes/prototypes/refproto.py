"""Throwaway prototype of an independent reference model for flat CrossBlock designs.
Spec (pure data):
 basics: [(name, [(lname, weight), ...])]
 derived: [(name, args[names], width, stride, start|None, [(lname, weight)...], table_salt)]
    level index of an input = H(salt, input) % nlevels   (total function, any input incl. None)
 crossing: [names]; constraints: [(kind, ...)] ; rcc: bool
"""
import hashlib, itertools, math
from collections import Counter

def hidx(salt, key, n):
    return int(hashlib.md5((str(salt) + repr(key)).encode()).hexdigest(), 16) % n

class Ref:
    def __init__(self, spec):
        self.spec = spec
        self.basics = {n: lv for n, lv in spec["basics"]}
        self.derived = {d[0]: d for d in spec["derived"]}
        self.order = [n for n, _ in spec["basics"]] + [d[0] for d in spec["derived"]]
        self.start = {}
        for n in self.basics: self.start[n] = 0
        for d in spec["derived"]:
            name, args, width, stride, start, levels, salt = d
            default = max(self.start[a] for a in args) + width - 1
            self.start[name] = default if start is None else start
        self.ambiguous = []

    def levels(self, f):
        return self.basics[f] if f in self.basics else self.derived[f][5]
    def stride(self, f):
        return 1 if f in self.basics else self.derived[f][3]
    def width(self, f):
        return 1 if f in self.basics else self.derived[f][2]
    def is_complex(self, f):
        if f in self.basics: return False
        d = self.derived[f]
        return d[2] > 1 or d[3] > 1 or self.start[f] > 0 or any(self.is_complex(a) for a in d[1][:1])
    def applicable(self, f, t):
        return t >= self.start[f] and (t - self.start[f]) % self.stride(f) == 0

    def derive(self, f, seq, t):
        """value (level name) of derived factor f at trial t given seq (dict name->list of names/None)"""
        name, args, width, stride, start, levels, salt = self.derived[f]
        inp = []
        for a in args:
            w = []
            for i in range(width):
                tt = t - (width - 1) + i
                w.append(seq[a][tt] if tt >= 0 and seq[a][tt] != '' else None)
            inp.append(tuple(w))
        key = tuple(x[0] for x in inp) if width == 1 else tuple(inp)
        return levels[hidx(salt, key, len(levels))][0]

    # ---- crossing size / trial count per documented arithmetic
    def excluded_levels(self):
        return {(c[1], c[2]) for c in self.spec["constraints"] if c[0] == "exclude"}

    def combos(self):
        cr = self.spec["crossing"]
        return list(itertools.product(*[[l[0] for l in self.levels(f)] for f in cr]))

    def combo_weight(self, combo):
        w = 1
        for f, l in zip(self.spec["crossing"], combo):
            w *= dict(self.levels(f))[l]
        return w

    def single_trial_assignments(self):
        """all single-trial assignments of basic factors with non-complex derived factors evaluated."""
        names = list(self.basics)
        ex = self.excluded_levels()
        out = []
        for vals in itertools.product(*[[l[0] for l in self.basics[n]] for n in names]):
            seq = {n: [v] for n, v in zip(names, vals)}
            ok = all((n, v) not in ex for n, v in zip(names, vals))
            for d in self.spec["derived"]:
                f = d[0]
                if not self.is_complex(f):
                    seq[f] = [self.derive(f, seq, 0)]
                    if (f, seq[f][0]) in ex: ok = False
            out.append((seq, ok))
        return out

    def possible_combos(self):
        cr = self.spec["crossing"]
        ex = self.excluded_levels()
        sta = self.single_trial_assignments()
        poss = []
        for c in self.combos():
            if any((f, l) in ex for f, l in zip(cr, c)):
                continue
            simple = [(f, l) for f, l in zip(cr, c) if not self.is_complex(f)]
            if any(ok and all(seq[f][0] == l for f, l in simple) for seq, ok in sta):
                poss.append(c)
        return poss

    def geometry(self):
        cr = self.spec["crossing"]
        allc = self.combos(); poss = self.possible_combos()
        self.removed = len(allc) != len(poss)
        S = sum(self.combo_weight(c) for c in poss)
        p = max([self.start[f] for f in cr], default=0)
        mins = [c[1] for c in self.spec["constraints"] if c[0] == "min"]
        T = max([p + S, 1] + mins)
        w = -(-(T - p) // S) if S > 0 else None
        return dict(S=S, p=p, T=T, w=w, poss=poss)

    # ---- validity
    def runs(self, xs, level):
        runs = []; n = 0
        for x in xs:
            if x == level: n += 1
            else:
                if n: runs.append(n)
                n = 0
        if n: runs.append(n)
        return runs

    def valid(self, seq, g=None):
        g = g or self.geometry()
        T, p, S, w = g["T"], g["p"], g["S"], g["w"]
        cr = self.spec["crossing"]
        if self.removed and self.spec["rcc"]:
            return False
        if S == 0: return False
        for f in self.order:
            if len(seq[f]) != T: return False
            names = [l[0] for l in self.levels(f)]
            for t in range(T):
                if self.applicable(f, t):
                    if seq[f][t] not in names: return False
                    if f in self.derived and seq[f][t] != self.derive(f, seq, t): return False
                else:
                    if seq[f][t] != '': return False
        # crossing: single chunk of size S*w truncated
        cnt = Counter(tuple(seq[f][t] for f in cr) for t in range(p, T))
        full = (T - p) == S * w
        for c in set(cnt) | set(g["poss"]):
            if c not in g["poss"]:
                return False
            want = self.combo_weight(c) * w
            if full and cnt[c] != want: return False
            if cnt[c] > want: return False
        for c in self.spec["constraints"]:
            kind = c[0]
            if kind == "min": continue
            f = c[1]
            lvls = [c[2]] if c[2] is not None else [l[0] for l in self.levels(f)]
            xs = seq[f]
            for l in lvls:
                if kind == "exclude":
                    if l in xs: return False
                elif kind == "pin":
                    i = c[3]
                    if not (-T <= i < T): return False
                    if xs[i] != l: return False
                elif kind == "atmost":
                    if any(r > c[3] for r in self.runs(xs, l)): return False
                elif kind == "atleast":
                    if any(r < c[3] for r in self.runs(xs, l)): return False
                elif kind == "exactlyrow":
                    if any(r != c[3] for r in self.runs(xs, l)): return False
                elif kind == "exactlyk":
                    if xs.count(l) != c[3]: return False
        return True

    def enumerate(self, limit=200000):
        g = self.geometry(); T = g["T"]
        names = list(self.basics)
        per_trial = list(itertools.product(*[[l[0] for l in self.basics[n]] for n in names]))
        if len(per_trial) ** T > limit: return None
        out = Counter()
        for choice in itertools.product(per_trial, repeat=T):
            seq = {n: [choice[t][i] for t in range(T)] for i, n in enumerate(names)}
            for d in self.spec["derived"]:
                f = d[0]; seq[f] = []
                for t in range(T):
                    seq[f].append(self.derive(f, seq, t) if self.applicable(f, t) else '')
            if self.valid(seq, g):
                mult = 1
                for n in names:
                    if n not in self.spec["crossing"]:
                        wd = dict(self.basics[n])
                        for v in seq[n]: mult *= wd[v]
                out[tuple(sorted((k, tuple(v)) for k, v in seq.items()))] += mult
        return out
