import os, io, contextlib, random, signal, sys, traceback, json, tempfile
os.environ["UNIGEN_DOWNLOAD_IF_MISSING"] = "False"
from collections import Counter
from sweetpea import *
from refproto import Ref, hidx
os.chdir(tempfile.mkdtemp())

def quiet(f, *a, **k):
    buf = io.StringIO()
    with contextlib.redirect_stdout(buf), contextlib.redirect_stderr(buf):
        return f(*a, **k)
class TO(BaseException): pass
def handler(s, f): raise TO()
signal.signal(signal.SIGALRM, handler)

def gen_spec(rng, simple):
    nb = rng.randint(1, 3)
    basics = []
    for i in range(nb):
        nl = rng.randint(1, 3)
        basics.append(("ABC"[i], [(f"{'abc'[i]}{j}", 2 if rng.random() < 0.15 else 1) for j in range(nl)]))
    derived = []
    names = [b[0] for b in basics]
    for d in range(rng.randint(0, 2)):
        kind = rng.choice(["within", "transition"] if simple else ["within", "transition", "window"])
        pool = names + ([x[0] for x in derived if x[3] == 1] if rng.random() < 0.3 else [])
        args = rng.sample(pool, rng.randint(1, min(2, len(pool))))
        width = {"within": 1, "transition": 2, "window": rng.randint(1, 3)}[kind]
        stride = rng.choice([1, 1, 2, 3]) if kind == "window" else 1
        start = rng.choice([None, None, 0, 1, 2]) if kind == "window" else None
        nlev = rng.randint(2, 3)
        derived.append((f"D{d}", args, width, stride, start, [(f"d{d}{i}", 2 if rng.random() < 0.1 else 1) for i in range(nlev)], rng.randint(0, 10**6)))
    allf = names + [d[0] for d in derived]
    cands = [f for f in allf if not any(d[0] == f and d[3] > 1 for d in derived)]
    crossing = rng.sample(cands, rng.randint(1, min(2, len(cands))))
    cons = []
    lv = {b[0]: b[1] for b in basics}; lv.update({d[0]: d[5] for d in derived})
    for c in range(rng.randint(0, 2)):
        f = rng.choice(allf); l = rng.choice(lv[f])[0]
        kind = rng.choice(["atmost", "atleast", "exactlyrow", "exactlyk", "pin", "exclude", "min"])
        if kind == "min": cons.append(("min", rng.randint(1, 7)))
        elif kind == "pin": cons.append(("pin", f, l, rng.randint(-3, 3)))
        elif kind == "exclude": cons.append(("exclude", f, l))
        else: cons.append((kind, f, l if rng.random() < 0.7 else None, rng.randint(1, 3)))
    return dict(basics=basics, derived=derived, crossing=crossing, constraints=cons, rcc=rng.random() < 0.5)

def build(spec):
    F = {}
    for n, lv in spec["basics"]:
        F[n] = Factor(n, [Level(l, w) if w > 1 else l for l, w in lv])
    for name, args, width, stride, start, levels, salt in spec["derived"]:
        def mk(i, width=width, salt=salt, n=len(levels), nargs=len(args)):
            def p(*a):
                if width == 1: key = tuple(a)
                else: key = tuple(tuple(x[j - (width - 1)] for j in range(width)) for x in a)
                return hidx(salt, key, n) == i
            return p
        dl = []
        for i, (l, w) in enumerate(levels):
            fs = [F[a] for a in args]
            if width == 1 and stride == 1 and start is None: win = WithinTrial(mk(i), fs)
            elif width == 2 and stride == 1 and start is None: win = Transition(mk(i), fs)
            else: win = Window(mk(i), fs, width, stride, start)
            dl.append(DerivedLevel(l, win, w))
        F[name] = Factor(name, dl)
    cons = []
    for c in spec["constraints"]:
        if c[0] == "min": cons.append(MinimumTrials(c[1])); continue
        tgt = (F[c[1]], c[2]) if c[2] is not None else F[c[1]]
        cons.append({"pin": lambda: Pin(c[3], tgt), "exclude": lambda: Exclude(tgt), "atmost": lambda: AtMostKInARow(c[3], tgt),
                     "atleast": lambda: AtLeastKInARow(c[3], tgt), "exactlyrow": lambda: ExactlyKInARow(c[3], tgt),
                     "exactlyk": lambda: ExactlyK(c[3], tgt)}[c[0]]())
    order = [n for n, _ in spec["basics"]] + [d[0] for d in spec["derived"]]
    return CrossBlock([F[n] for n in order], [F[n] for n in spec["crossing"]], cons, spec["rcc"])

def key(e): return tuple(sorted((k, tuple(map(str, v))) for k, v in e.items()))
if __name__ == '__main__':
    stats = Counter()
    seed0 = int(sys.argv[1]); N = int(sys.argv[2]); simple = sys.argv[3] == "simple"
    for s in range(seed0, seed0 + N):
        rng = random.Random(s)
        spec = gen_spec(rng, simple)
        try:
            blk = quiet(build, spec)
        except Exception as e:
            stats["construct:" + type(e).__name__] += 1; continue
        ref = Ref(spec); g = ref.geometry()
        T = blk.trials_per_sample()
        if T != g["T"]:
            stats["T-DIFF"] += 1; print(s, "TDIFF lib", T, "ref", g["T"], json.dumps(spec)); continue
        if T > 6: stats["big"] += 1; continue
        R = ref.enumerate()
        if R is None: stats["big"] += 1; continue
        if sum(R.values()) > 600: stats["many"] += 1; continue
        for gen in (IterateSATGen, RandomGen):
            signal.alarm(30)
            try:
                r = quiet(synthesize_trials, blk, 2000, gen)
                got = Counter(key(e) for e in r)
                if got == R: stats[gen.__name__ + ":ok" + ("-empty" if not R else "")] += 1
                else:
                    stats[gen.__name__ + ":MISMATCH"] += 1
                    print(s, gen.__name__, "MISMATCH lib", sum(got.values()), "ref", sum(R.values()), "T", T, json.dumps(spec), "errors:", [e[:60] for e in blk.errors])
            except TO:
                stats[gen.__name__ + ":timeout"] += 1
            except Exception as e:
                tb = traceback.extract_tb(e.__traceback__)[-1]
                sig = f"{type(e).__name__}@{tb.filename.split('/')[-1]}:{tb.lineno}"
                stats[gen.__name__ + ":EXC:" + sig] += 1
                if "--verbose" in sys.argv: print(s, gen.__name__, sig, json.dumps(spec))
            finally:
                signal.alarm(0)
    print(dict(stats))
