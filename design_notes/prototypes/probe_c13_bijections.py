import itertools, math
from collections import Counter
from sweetpea._internal.combinatorics import *
bad=[]
def chk(name, cond, info):
    if not cond: bad.append((name, info))
# extract_components
for sizes in itertools.chain.from_iterable(itertools.product(range(1,5), repeat=d) for d in range(1,4)):
    N=math.prod(sizes); imgs=[tuple(extract_components(list(sizes), n)) for n in range(N)]
    chk("extract", len(set(imgs))==N and all(all(0<=c<s for c,s in zip(i,sizes)) for i in imgs), sizes)
# jth combination
for l in range(0,5):
    for n in range(1,5):
        imgs=[tuple(compute_jth_combination(l,n,j)) for j in range(n**l)]
        chk("comb", set(imgs)==set(itertools.product(range(n),repeat=l)) and len(set(imgs))==len(imgs), (l,n))
# without replacement
for n in range(1,9):
    for m in range(0,n+1):
        N=n_choose_m(n,m); chk("nCm", N==math.comb(n,m), (n,m))
        imgs=[tuple(compute_jth_combination_without_replacement(n,m,j)) for j in range(N)]
        chk("comb-wo", len(set(imgs))==N and {tuple(sorted(i)) for i in imgs}=={tuple(c) for c in itertools.combinations(range(n),m)} and all(len(set(i))==m for i in imgs), (n,m))
# permutation prefix
for n in range(1,8):
    for m in range(0,n+1):
        N=math.perm(n,m); imgs=[tuple(compute_jth_permutation_prefix(n,m,j)) for j in range(N)]
        chk("perm-prefix", set(imgs)==set(itertools.permutations(range(n),m)) and len(set(imgs))==N, (n,m))
# permutations with copies
def multiset_perms(counters):
    items=[i for i,c in enumerate(counters) for _ in range(c)]
    return set(itertools.permutations(items))
for q in range(1,5):
    for m in range(1,4):
        if q*m>8: continue
        ref=multiset_perms([m]*q); N=count_permutations_with_copies(q,m,q*m)
        imgs=[tuple(construct_permutation_with_copies(j,q,m)) for j in range(N)]
        chk("perm-copies", N==len(ref) and set(imgs)==ref and len(set(imgs))==N, (q,m))
for counters in itertools.chain.from_iterable(itertools.product(range(0,4), repeat=q) for q in range(1,5)):
    if sum(counters)>7 or sum(counters)==0: continue
    ref=multiset_perms(counters); N=count_remaining_permutations(list(counters))
    imgs=[tuple(construct_permutation_with_varying_copies(j,len(counters),list(counters))) for j in range(N)]
    chk("perm-varying", N==len(ref) and set(imgs)==ref and len(set(imgs))==N, counters)
# prefixes of permutations with copies (uniform m and counters), shared and fresh memo
def prefixes(counters, first_n):
    return {p[:first_n] for p in multiset_perms(counters)}
cases=0
for q in range(1,5):
    for m in range(1,4):
        if q*m>8: continue
        for first_n in range(0,q*m+1):
            ref=prefixes([m]*q, first_n)
            for shared in (True, False):
                memo=PermutationMemo()
                N=count_prefixes_of_permutations_with_copies(q,m,first_n,memo)
                imgs=[tuple(compute_jth_prefix_of_permutations_with_copies(q,m,first_n,j,memo if shared else PermutationMemo())) for j in range(N)]
                cases+=1
                chk("prefix-uniform", N==len(ref) and set(imgs)==ref and len(set(imgs))==N, (q,m,first_n,shared,N,len(ref)))
            chk("count-agree", count_permutations_with_copies(q,m,first_n)==len(ref), (q,m,first_n))
for counters in itertools.chain.from_iterable(itertools.product(range(0,4), repeat=q) for q in range(1,5)):
    if sum(counters)>7 or sum(counters)==0: continue
    for first_n in range(0,sum(counters)+1):
        ref=prefixes(counters, first_n)
        for shared in (True, False):
            memo=PermutationMemo()
            N=count_prefixes_of_permutations_with_copies(len(counters),list(counters),first_n,memo)
            imgs=[tuple(compute_jth_prefix_of_permutations_with_copies(len(counters),list(counters),first_n,j,memo if shared else PermutationMemo())) for j in range(N)]
            cases+=1
            chk("prefix-counters", N==len(ref) and set(imgs)==ref and len(set(imgs))==N, (counters,first_n,shared,N,len(ref)))
print("cases", cases, "bad", len(bad)); print(Counter(b[0] for b in bad)); print(bad[:8])
