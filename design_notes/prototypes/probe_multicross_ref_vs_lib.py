import os, io, contextlib, random, signal, sys, traceback, json, tempfile
os.environ["UNIGEN_DOWNLOAD_IF_MISSING"] = "False"
from collections import Counter
from sweetpea import *
from refmulti import RefMulti
from refproto import hidx
import probe_flat_ref_vs_lib as p9
os.chdir(tempfile.mkdtemp())
quiet = p9.quiet
class TO(BaseException): pass
def handler(s, f): raise TO()
signal.signal(signal.SIGALRM, handler)
def key(e): return tuple(sorted((k, tuple(map(str, v))) for k, v in e.items()))
def build_multi(spec):
    blk = None
    F = {}
    for n, lv in spec["basics"]:
        F[n] = Factor(n, [Level(l, w) if w > 1 else l for l, w in lv])
    for name, args, width, stride, start, levels, salt in spec["derived"]:
        def mk(i, width=width, salt=salt, n=len(levels)):
            def p(*a):
                if width == 1: key = tuple(a)
                else: key = tuple(tuple(x[j - (width - 1)] for j in range(width)) for x in a)
                return hidx(salt, key, n) == i
            return p
        dl = []
        for i, (l, w) in enumerate(levels):
            fs = [F[a] for a in args]
            if width == 1 and stride == 1 and start is None: win = WithinTrial(mk(i), fs)
            elif width == 2 and stride == 1 and start is None: win = Window(mk(i), fs, 2, 1)
            else: win = Window(mk(i), fs, width, stride, start)
            dl.append(DerivedLevel(l, win, w))
        F[name] = Factor(name, dl)
    cons = []
    for c in spec["constraints"]:
        if c[0] == "min": cons.append(MinimumTrials(c[1])); continue
        tgt = (F[c[1]], c[2]) if c[2] is not None else F[c[1]]
        cons.append({"pin": lambda: Pin(c[3], tgt), "exclude": lambda: Exclude(tgt), "atmost": lambda: AtMostKInARow(c[3], tgt),
                     "atleast": lambda: AtLeastKInARow(c[3], tgt), "exactlyrow": lambda: ExactlyKInARow(c[3], tgt),
                     "exactlyk": lambda: ExactlyK(c[3], tgt)}[c[0]]())
    order = [n for n, _ in spec["basics"]] + [d[0] for d in spec["derived"]]
    mode = {"weight": RepeatMode.WEIGHT, "repeat": RepeatMode.REPEAT}[spec["mode"]]
    al = {"post": AlignmentMode.POST_PREAMBLE, "parallel": AlignmentMode.PARALLEL_START}[spec["alignment"]]
    return MultiCrossBlock([F[n] for n in order], [[F[n] for n in c] for c in spec["crossings"]], cons, spec["rcc"], mode=mode, alignment=al)

stats = Counter()
seed0 = int(sys.argv[1]); N = int(sys.argv[2])
for s in range(seed0, seed0 + N):
    rng = random.Random(s)
    spec = p9.gen_spec(rng, True)
    # no weights, only atmost/exclude/min constraints: keep to the well-understood core
    spec["basics"] = [(n, [(l, 1) for l, w in lv]) for n, lv in spec["basics"]]
    spec["derived"] = [(n, a, w, st, sr, [(l, 1) for l, _ in lv], salt) for (n, a, w, st, sr, lv, salt) in spec["derived"]]
    spec["constraints"] = [c for c in spec["constraints"] if c[0] in ("atmost", "min", "exactlyk")]
    names = [b[0] for b in spec["basics"]] + [d[0] for d in spec["derived"]]
    k = rng.randint(2, 3); crossings = []
    for i in range(k):
        crossings.append(rng.sample(names, rng.randint(1, min(2, len(names)))))
    spec["crossings"] = crossings; spec["mode"] = rng.choice(["weight", "repeat"]); spec["alignment"] = rng.choice(["post", "parallel"])
    spec["rcc"] = False
    try:
        blk = quiet(build_multi, spec)
    except Exception as e:
        stats["construct:" + type(e).__name__] += 1; continue
    ref = RefMulti(spec); g = ref.geometry()
    T = blk.trials_per_sample()
    if T != g["T"]:
        stats["T-DIFF"] += 1; print(s, "TDIFF lib", T, "ref", g["T"], json.dumps(spec)); continue
    if T > 6: stats["big"] += 1; continue
    R = ref.enumerate()
    if R is None: stats["big"] += 1; continue
    if sum(R.values()) > 500: stats["many"] += 1; continue
    for gen in (IterateSATGen, RandomGen):
        signal.alarm(30)
        try:
            r = quiet(synthesize_trials, blk, 2000, gen)
            got = Counter(key(e) for e in r)
            if got == R: stats[gen.__name__ + ":ok" + ("-empty" if not R else "")] += 1
            else:
                stats[gen.__name__ + ":MISMATCH"] += 1
                print(s, gen.__name__, "MISMATCH lib", sum(got.values()), "ref", sum(R.values()), "T", T, json.dumps(spec))
        except TO: stats[gen.__name__ + ":timeout"] += 1
        except Exception as e:
            tb = traceback.extract_tb(e.__traceback__)[-1]
            stats[gen.__name__ + ":EXC:" + f"{type(e).__name__}@{tb.filename.split('/')[-1]}:{tb.lineno}"] += 1
        finally: signal.alarm(0)
print(dict(stats))
