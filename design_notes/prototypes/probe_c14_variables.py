import os, io, contextlib, random, sys, traceback, json, tempfile
os.environ["UNIGEN_DOWNLOAD_IF_MISSING"] = "False"
from collections import Counter
from sweetpea import *
from sweetpea._internal.sampling_strategy.base import Gen
from sweetpea._internal.server import build_cnf
from refproto import Ref
import probe_flat_ref_vs_lib as p9
os.chdir(tempfile.mkdtemp())
quiet = p9.quiet
stats = Counter()
for s in range(int(sys.argv[1]), int(sys.argv[1]) + int(sys.argv[2])):
    rng = random.Random(s)
    spec = p9.gen_spec(rng, False)
    try: blk = quiet(p9.build, spec)
    except Exception as e: stats["construct"] += 1; continue
    ref = Ref(spec); T = blk.trials_per_sample()
    try:
        act = [f for f in blk.act_design]
        seen = {}
        ok = True
        for t in range(T):
            for f in act:
                if not ref.applicable(f.name, t): continue
                for l in f.levels:
                    v = blk.get_variable(t + 1, (f, l))
                    if v in seen: ok = False; print(s, "DUP var", v, seen[v], (t, f.name, l.name))
                    seen[v] = (t, f.name, l.name)
        vps = blk.variables_per_sample()
        if sorted(seen) != list(range(1, vps + 1)): ok = False; print(s, "RANGE", len(seen), vps, json.dumps(spec)[:300])
        cnf = quiet(build_cnf, blk)
        aux = {abs(int(v)) for c in cnf for v in c} - set(seen)
        if aux and min(aux) <= vps: ok = False; print(s, "AUX below", min(aux), vps)
        # decode round trip on a random one-hot assignment
        choice = {}; sol = []
        for t in range(T):
            for f in act:
                if not ref.applicable(f.name, t): continue
                pick = rng.choice(list(f.levels)); choice[(t, f.name)] = pick.name
                for l in f.levels:
                    v = blk.get_variable(t + 1, (f, l)); sol.append(v if l is pick else -v)
        dec = Gen.decode(blk, sol)
        want = {f.name: [choice.get((t, f.name), '') for t in range(T)] for f in act}
        got = {k: v for k, v in dec.items()}
        if {str(k): v for k, v in got.items()} != {str(k): v for k, v in want.items()}:
            ok = False; print(s, "DECODE", json.dumps(spec)[:300], "\n   want", want, "\n   got ", got)
        stats["ok" if ok else "BAD"] += 1
    except Exception as e:
        tb = traceback.extract_tb(e.__traceback__)[-1]
        stats[f"EXC:{type(e).__name__}@{tb.filename.split('/')[-1]}:{tb.lineno}"] += 1
print(dict(stats))
