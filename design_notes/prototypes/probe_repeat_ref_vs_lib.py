import os, io, contextlib, random, signal, sys, traceback, json, tempfile
os.environ["UNIGEN_DOWNLOAD_IF_MISSING"] = "False"
from collections import Counter
from sweetpea import *
import probe_flat_ref_vs_lib as p9
from refcomp import RefRepeat
os.chdir(tempfile.mkdtemp())
quiet = p9.quiet; key = p9.key
class TO(BaseException): pass
def handler(s, f): raise TO()
signal.signal(signal.SIGALRM, handler)
stats = Counter()
seed0 = int(sys.argv[1]); N = int(sys.argv[2])
for s in range(seed0, seed0 + N):
    rng = random.Random(s)
    spec = p9.gen_spec(rng, True)
    spec["basics"] = [(n, [(l, 1) for l, w in lv]) for n, lv in spec["basics"]]
    spec["derived"] = [(n, a, w, st, sr, [(l, 1) for l, _ in lv], salt) for (n, a, w, st, sr, lv, salt) in spec["derived"]]
    spec["constraints"] = [c for c in spec["constraints"] if c[0] in ("atmost", "exactlyk", "pin", "atleast", "exactlyrow")]
    spec["rcc"] = False
    try:
        blk = quiet(p9.build, spec)
    except Exception as e:
        stats["construct:" + type(e).__name__] += 1; continue
    L = blk.trials_per_sample()
    reps = rng.randint(2, 3)
    pre = blk.preamble_size()
    total = pre + reps * (L - pre) - rng.choice([0, 0, 0, 1])
    outer = [("min", total)]
    if rng.random() < 0.5:
        f = rng.choice([b[0] for b in spec["basics"]]); l = rng.choice(dict(spec["basics"])[f])[0]
        outer.append((rng.choice(["atmost", "exactlyk", "pin"]), f, l, rng.randint(1, 3)))
    def mkouter():
        out = []
        F = {f.name: f for f in blk.orig_design}
        for c in outer:
            if c[0] == "min": out.append(MinimumTrials(c[1])); continue
            tgt = (F[c[1]], c[2])
            out.append({"atmost": lambda: AtMostKInARow(c[3], tgt), "exactlyk": lambda: ExactlyK(c[3], tgt), "pin": lambda: Pin(c[3], tgt)}[c[0]]())
        return out
    try:
        rep = quiet(Repeat, blk, mkouter())
    except Exception as e:
        stats["construct-repeat:" + type(e).__name__] += 1; continue
    R = RefRepeat(spec, outer)
    if R.ambiguous: stats["ambiguous:" + R.ambiguous[0]] += 1; continue
    T = rep.trials_per_sample()
    if T != R.T: stats["T-DIFF"] += 1; print(s, "TDIFF", T, R.T, json.dumps(spec), outer); continue
    if T > 7: stats["big"] += 1; continue
    want = R.enumerate()
    if want is None or sum(want.values()) > 600: stats["many"] += 1; continue
    for gen in (IterateSATGen, RandomGen):
        signal.alarm(30)
        try:
            r = quiet(synthesize_trials, rep, 2000, gen)
            got = Counter(key(e) for e in r)
            if got == want: stats[gen.__name__ + ":ok" + ("-empty" if not want else "")] += 1
            else:
                stats[gen.__name__ + ":MISMATCH"] += 1
                print(s, gen.__name__, "MISMATCH lib", sum(got.values()), "ref", sum(want.values()), "T", T, "L", L, "pre", pre, json.dumps(spec), outer)
        except TO: stats[gen.__name__ + ":timeout"] += 1
        except Exception as e:
            tb = traceback.extract_tb(e.__traceback__)[-1]
            stats[gen.__name__ + ":EXC:" + f"{type(e).__name__}@{tb.filename.split('/')[-1]}:{tb.lineno}"] += 1
        finally: signal.alarm(0)
print(dict(stats))
