import io, contextlib, traceback
from sweetpea import *
from sweetpea._internal.core.cnf import CNF, Var
from sweetpea._internal.core.generate.utility import combine_cnf_with_requests, GenerationRequest, AssertionType
import pycryptosat, itertools

def quiet(f, *a, **k):
    buf = io.StringIO()
    with contextlib.redirect_stdout(buf):
        return f(*a, **k)

# C10: cardinality k > n
def card(kind, k, n):
    vs = [Var(i) for i in range(1, n+1)]
    cnf = combine_cnf_with_requests(CNF(), n, n, [GenerationRequest(kind, k, vs)])
    cl = cnf.as_list_of_list_of_ints()
    res = {}
    for bits in itertools.product([False, True], repeat=n):
        s = pycryptosat.Solver()
        for c in cl: s.add_clause(c)
        for i in range(1,n+1): s.add_clause([i,-i])
        sat, _ = s.solve([ (i+1) if b else -(i+1) for i,b in enumerate(bits)])
        res[sum(bits)] = res.get(sum(bits), set()) | {sat}
    return res
for kind in AssertionType:
    for n in (1,2,3,4,5,6,7):
        for k in range(0, n+6):
            r = card(kind, k, n)
            exp = {c: ({'EQ': c==k, 'LT': c<k, 'GT': c>k}[kind.name]) for c in r}
            bad = {c: r[c] for c in r if r[c] != {exp[c]}}
            if bad: print("C10 wrong", kind.name, "n",n,"k",k, bad)
