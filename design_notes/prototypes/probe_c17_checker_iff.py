import os, io, contextlib, random, sys, traceback, json, tempfile
os.environ["UNIGEN_DOWNLOAD_IF_MISSING"] = "False"
from collections import Counter
from sweetpea import *
from refproto import Ref
import probe_flat_ref_vs_lib as p9
os.chdir(tempfile.mkdtemp())
quiet = p9.quiet
stats = Counter()
def perturb(rng, ref, seq, T):
    s = {k: list(v) for k, v in seq.items()}
    kind = rng.choice(["cell", "swap", "rot", "derived"])
    if kind == "cell":
        f = rng.choice(list(ref.basics)); t = rng.randrange(T)
        s[f][t] = rng.choice([l[0] for l in ref.basics[f]])
    elif kind == "swap" and T > 1:
        a, b = rng.sample(range(T), 2)
        for f in ref.basics: s[f][a], s[f][b] = s[f][b], s[f][a]
    elif kind == "rot":
        for f in ref.basics: s[f] = s[f][1:] + s[f][:1]
    if kind != "derived":
        for d in ref.spec["derived"]:
            f = d[0]; s[f] = [ref.derive(f, s, t) if ref.applicable(f, t) else '' for t in range(T)]
    elif ref.derived:
        f = rng.choice(list(ref.derived)); ts = [t for t in range(T) if ref.applicable(f, t)]
        if ts:
            t = rng.choice(ts); s[f][t] = rng.choice([l[0] for l in ref.levels(f)])
    return kind, s
for sd in range(int(sys.argv[1]), int(sys.argv[1]) + int(sys.argv[2])):
    rng = random.Random(sd)
    spec = p9.gen_spec(rng, sys.argv[3] == "simple")
    spec["basics"] = [(n, [(l, 1) for l, w in lv]) for n, lv in spec["basics"]]      # no weights (finding #18 / #8)
    spec["derived"] = [(n, a, w, st, sr, [(l, 1) for l, _ in lv], salt) for (n, a, w, st, sr, lv, salt) in spec["derived"]]
    try: blk = quiet(p9.build, spec)
    except Exception: stats["construct"] += 1; continue
    ref = Ref(spec); g = ref.geometry(); T = blk.trials_per_sample()
    if T != g["T"] or T > 6: stats["skip"] += 1; continue
    R = ref.enumerate()
    if not R or sum(R.values()) > 500: stats["skip"] += 1; continue
    valid = [dict((k, list(v)) for k, v in key) for key in list(R)[:8]]
    cands = [("valid", v) for v in valid]
    for v in valid:
        for _ in range(4): cands.append(perturb(rng, ref, v, T))
    for kind, c in cands:
        want = ref.valid(c, g)
        try:
            mm = quiet(sample_mismatch_experiment, blk, c)
            got = (mm == {})
            if got == want: stats[f"agree:{'valid' if want else 'invalid'}"] += 1
            else:
                stats[f"DISAGREE:{'checker-accepts-invalid' if got else 'checker-rejects-valid'}"] += 1
                if stats["printed"] < 12:
                    stats["printed"] += 1
                    print(sd, kind, "ref", want, "checker", mm, json.dumps(spec)[:330], "\n    seq", c)
        except Exception as e:
            tb = traceback.extract_tb(e.__traceback__)[-1]
            stats[f"EXC:{type(e).__name__}@{tb.filename.split('/')[-1]}:{tb.lineno}"] += 1
print(dict(stats))
