import os, io, contextlib, tempfile, time
os.environ["UNIGEN_DOWNLOAD_IF_MISSING"]="False"
from collections import Counter, defaultdict
from fractions import Fraction
from sweetpea import *
import sweetpea._internal.sampling_strategy.random as R
os.chdir(tempfile.mkdtemp())

class Stop(BaseException): pass
class Script:
    """Scripted stand-in for the `random` module inside sweetpea's random.py"""
    def __init__(self): self.script=[]; self.pos=0; self.trace=[]
    def randrange(self, a, b=None):
        lo, hi = (0, a) if b is None else (a, b)
        n = hi - lo
        if self.pos < len(self.script): c = self.script[self.pos]
        else: c = 0
        self.pos += 1; self.trace.append((c, n))
        return lo + c
def explore(block, max_leaves=50000):
    """DFS over all draw sequences of ONE candidate of RandomGen.sample(block,1).
    returns list of (prob, outcome) where outcome is key of accepted sample or None if rejected."""
    scr = Script(); orig_random = R.random; R.random = scr
    calls = [0]
    orig = R.UCSolutionEnumerator.generate_random_samples
    def wrapped(self, *a, **k):
        calls[0] += 1
        if calls[0] > 1: raise Stop()
        return orig(self, *a, **k)
    R.UCSolutionEnumerator.generate_random_samples = wrapped
    leaves = []
    try:
        stack = [[]]
        while stack:
            prefix = stack.pop()
            scr.script = prefix; scr.pos = 0; scr.trace = []; calls[0] = 0
            buf = io.StringIO()
            try:
                with contextlib.redirect_stdout(buf):
                    res = R.RandomGen.sample(block, 1)
                out = tuple(sorted((k, tuple(v)) for k, v in res.samples[0].items())) if res.samples else "EMPTY"
            except Stop:
                out = None
            tr = scr.trace
            # trace beyond the first candidate (after Stop) is not recorded because Stop raised before draws
            prob = Fraction(1)
            for c, n in tr: prob /= n
            leaves.append((prob, out, tuple(c for c, n in tr)))
            # expand siblings: for each position >= len(prefix), alternatives c+1..n-1
            for i in range(len(prefix), len(tr)):
                for alt in range(1, tr[i][1]):
                    stack.append([c for c, n in tr[:i]] + [alt])
            if len(leaves) > max_leaves: return None
    finally:
        R.random = orig_random; R.UCSolutionEnumerator.generate_random_samples = orig
    return leaves

A = Factor("A", ["a0","a1"]); B = Factor("B", ["b0","b1","b2"])
D = Factor("D", [DerivedLevel("same", WithinTrial(lambda a,b: a[1]==b[1],[A,B])), ElseLevel("diff")])
for name, blk in [("plain", CrossBlock([A,B],[A],[])),
                  ("derived-cross", CrossBlock([A,B,D],[A,D],[])),
                  ("min5", CrossBlock([A,B,D],[A,D],[MinimumTrials(5)])),
                  ("atmost", CrossBlock([A,B],[A,B],[AtMostKInARow(1,(A,"a0"))]))]:
    t=time.time(); leaves = explore(blk); dt=time.time()-t
    tot = sum(p for p,_,_ in leaves)
    mass = defaultdict(Fraction)
    for p,o,_ in leaves:
        if o is not None: mass[o]+=p
    vals = set(mass.values())
    print(name, "leaves", len(leaves), "total prob", tot, "accepted seqs", len(mass), "distinct masses", sorted(vals)[:4], "time", round(dt,2))
