"""Prototype: compositional reference for Repeat(flat, cs) and Nest(flat_outer, flat_inner, cs) on top of refproto.Ref."""
import itertools
from collections import Counter
from refproto import Ref

def check_constraints(ref, cons, seq, lo, hi):
    T = hi - lo
    for c in cons:
        kind = c[0]
        if kind == "min": continue
        f = c[1]; lvls = [c[2]] if c[2] is not None else [l[0] for l in ref.levels(f)]; xs = seq[f][lo:hi]
        for l in lvls:
            if kind == "exclude" and l in xs: return False
            if kind == "pin":
                if not (-T <= c[3] < T) or xs[c[3]] != l: return False
            if kind == "atmost" and any(r > c[3] for r in ref.runs(xs, l)): return False
            if kind == "atleast" and any(r < c[3] for r in ref.runs(xs, l)): return False
            if kind == "exactlyrow" and any(r != c[3] for r in ref.runs(xs, l)): return False
            if kind == "exactlyk" and xs.count(l) != c[3]: return False
    return True

def check_derived(ref, seq, T):
    for f in ref.order:
        if len(seq[f]) != T: return False
        names = [l[0] for l in ref.levels(f)]
        for t in range(T):
            if ref.applicable(f, t):
                if seq[f][t] not in names: return False
                if f in ref.derived and seq[f][t] != ref.derive(f, seq, t): return False
            elif seq[f][t] != '': return False
    return True

def check_chunk(ref, g, seq, lo, hi, full_len):
    cr = ref.spec["crossing"]
    cnt = Counter(tuple(seq[f][t] for f in cr) for t in range(lo, hi))
    full = (hi - lo) == full_len and full_len == g["S"] * g["w"]
    for c in set(cnt) | set(g["poss"]):
        if c not in g["poss"]: return False
        want = ref.combo_weight(c) * g["w"]
        if full and cnt[c] != want: return False
        if cnt[c] > want: return False
    return True

class RefRepeat:
    def __init__(self, spec, outer_cons):
        self.ref = Ref(spec); self.g = self.ref.geometry(); self.outer = outer_cons
        L, p = self.g["T"], self.g["p"]
        mins = [c[1] for c in outer_cons if c[0] == "min"]
        self.T = max([L] + mins); self.L = L; self.p = p
        self.ambiguous = []
        if (L - p) != self.g["S"] * self.g["w"]: self.ambiguous.append("partial-inner")
    def valid(self, seq):
        ref, g, L, p, T = self.ref, self.g, self.L, self.p, self.T
        if ref.removed and ref.spec["rcc"]: return False
        if g["S"] == 0: return False
        if not check_derived(ref, seq, T): return False
        lo = 0
        while lo < T - p:
            hi = min(T, lo + L)
            if not check_chunk(ref, g, seq, lo + p, hi, L - p): return False
            if not check_constraints(ref, ref.spec["constraints"], seq, lo, hi): return False
            lo += L - p
        return check_constraints(ref, self.outer, seq, 0, T)
    def enumerate(self, limit=300000):
        ref = self.ref; T = self.T
        names = list(ref.basics)
        per_trial = list(itertools.product(*[[l[0] for l in ref.basics[n]] for n in names]))
        if len(per_trial) ** T > limit: return None
        out = Counter()
        for choice in itertools.product(per_trial, repeat=T):
            seq = {n: [choice[t][i] for t in range(T)] for i, n in enumerate(names)}
            for d in ref.spec["derived"]:
                f = d[0]; seq[f] = []
                for t in range(T): seq[f].append(ref.derive(f, seq, t) if ref.applicable(f, t) else '')
            if self.valid(seq):
                mult = 1
                for n in names:
                    if n not in ref.spec["crossing"]:
                        wd = dict(ref.basics[n])
                        for v in seq[n]: mult *= wd[v]
                out[tuple(sorted((k, tuple(v)) for k, v in seq.items()))] += mult
        return out
