import os, io, contextlib, tempfile, time
os.environ["UNIGEN_DOWNLOAD_IF_MISSING"]="False"
from sweetpea import *
from sweetpea._internal.server import build_cnf
import pycryptosat
os.chdir(tempfile.mkdtemp())
def quiet(f,*a,**k):
    b=io.StringIO()
    with contextlib.redirect_stdout(b): return f(*a,**k)
def c03(blk, cap=5000):
    cnf = quiet(build_cnf, blk); cl = cnf.as_list_of_list_of_ints()
    sup = blk.variables_per_sample()
    allv = sorted({abs(l) for c in cl for l in c}); aux = [v for v in allv if v > sup]
    s = pycryptosat.Solver()
    for c in cl: s.add_clause(c)
    n=0; bad=0
    while n < cap:
        sat, m = s.solve()
        if not sat: break
        n+=1
        proj = [v if m[v] else -v for v in range(1, sup+1)]
        # uniqueness of aux extension
        s2 = pycryptosat.Solver()
        for c in cl: s2.add_clause(c)
        s2.add_clause([-(v if m[v] else -v) for v in aux])
        sat2, _ = s2.solve(proj)
        if sat2: bad+=1
        s.add_clause([-l for l in proj])
    return n, bad, len(cl), len(aux)
A = Factor("A", ["a0","a1"]); B = Factor("B", ["b0","b1","b2"])
T = Factor("T", [DerivedLevel("rep", Transition(lambda a: a[0]==a[-1],[A])), ElseLevel("sw")])
for name, blk in [("plain", CrossBlock([A,B],[A,B],[])), ("trans", CrossBlock([A,B,T],[B,T],[AtMostKInARow(2,T)])), ("alk", CrossBlock([A,B],[A,B],[AtLeastKInARow(2,(A,"a0"))]))]:
    t=time.time(); r=c03(blk); print(name, r, round(time.time()-t,2))
