import os, io, contextlib, tempfile, itertools
os.environ["UNIGEN_DOWNLOAD_IF_MISSING"]="False"
from sweetpea import *
os.chdir(tempfile.mkdtemp())
def quiet(f,*a,**k):
    b=io.StringIO()
    with contextlib.redirect_stdout(b): return f(*a,**k)
def runs(xs,l):
    out=[];n=0
    for x in xs:
        if x==l:n+=1
        else:
            if n:out.append(n)
            n=0
    if n:out.append(n)
    return out
bad=0
for K,ok in ((AtLeastKInARow, lambda r,k: all(x>=k for x in r)), (ExactlyKInARow, lambda r,k: all(x==k for x in r))):
    for nlev in (2,3):
      for T in (1,2,3,4,5):
        for k in range(1,8):
            A = Factor("A", [f"a{i}" for i in range(nlev)]); Z = Factor("Z", ["z"])
            blk = CrossBlock([Z,A],[Z],[MinimumTrials(T), K(k,(A,"a0"))])
            want = sum(1 for s in itertools.product(range(nlev), repeat=T) if ok(runs(s,0),k))
            try:
                got = len(quiet(synthesize_trials, blk, 5000, IterateSATGen))
                got2 = len(quiet(synthesize_trials, blk, 5000, RandomGen))
            except Exception as e:
                got = got2 = f"EXC {type(e).__name__}"
            if got!=want or got2!=want:
                bad+=1; print(K.__name__, "nlev",nlev,"T",T,"k",k,"want",want,"sat",got,"rnd",got2)
print("bad", bad)
