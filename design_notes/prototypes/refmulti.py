"""Prototype: reference for MultiCrossBlock (several crossings, mode, alignment) on top of refproto.Ref"""
import itertools
from collections import Counter
from refproto import Ref

class RefMulti(Ref):
    def __init__(self, spec):
        super().__init__(dict(spec, crossing=spec["crossings"][0]))
        self.mspec = spec
    def crossing_info(self, cr):
        self.spec = dict(self.spec, crossing=cr)
        poss = self.possible_combos()
        removed = len(self.combos()) != len(poss)
        S = sum(self.combo_weight(c) for c in poss)
        p = max([self.start[f] for f in cr], default=0)
        return dict(cr=cr, poss=poss, S=S, p=p, removed=removed)
    def geometry(self):
        infos = [self.crossing_info(c) for c in self.mspec["crossings"] if c]
        mode, al = self.mspec["mode"], self.mspec["alignment"]
        mins = [c[1] for c in self.mspec["constraints"] if c[0] == "min"]
        if al == "post":
            P = max(i["p"] for i in infos)
            for i in infos: i["start"] = P
            T = P + max(i["S"] for i in infos)
        else:
            for i in infos: i["start"] = i["p"]
            T = max(i["p"] + i["S"] for i in infos)
        T = max([T, 1] + mins)
        for i in infos:
            n = T - i["start"]
            if mode == "weight":
                i["w"] = -(-n // i["S"]) if i["S"] else None; i["chunk"] = i["S"] * i["w"] if i["S"] else None
            else:
                i["w"] = 1; i["chunk"] = i["S"]
        self.removed = any(i["removed"] for i in infos)
        return dict(T=T, infos=infos, S=min(i["S"] for i in infos))
    def valid(self, seq, g=None):
        g = g or self.geometry(); T = g["T"]
        if self.removed and self.mspec["rcc"]: return False
        if any(i["S"] == 0 for i in g["infos"]): return False
        for f in self.order:
            if len(seq[f]) != T: return False
            names = [l[0] for l in self.levels(f)]
            for t in range(T):
                if self.applicable(f, t):
                    if seq[f][t] not in names: return False
                    if f in self.derived and seq[f][t] != self.derive(f, seq, t): return False
                elif seq[f][t] != '': return False
        for i in g["infos"]:
            self.spec = dict(self.spec, crossing=i["cr"])
            t0 = i["start"]
            while t0 < T:
                t1 = min(T, t0 + i["chunk"]); full = (t1 - t0) == i["chunk"]
                cnt = Counter(tuple(seq[f][t] for f in i["cr"]) for t in range(t0, t1))
                for c in set(cnt) | set(i["poss"]):
                    if c not in i["poss"]: return False
                    want = self.combo_weight(c) * i["w"]
                    if full and cnt[c] != want: return False
                    if cnt[c] > want: return False
                t0 = t1
        for c in self.mspec["constraints"]:
            kind = c[0]
            if kind == "min": continue
            f = c[1]; lvls = [c[2]] if c[2] is not None else [l[0] for l in self.levels(f)]; xs = seq[f]
            for l in lvls:
                if kind == "exclude" and l in xs: return False
                if kind == "pin":
                    if not (-T <= c[3] < T) or xs[c[3]] != l: return False
                if kind == "atmost" and any(r > c[3] for r in self.runs(xs, l)): return False
                if kind == "atleast" and any(r < c[3] for r in self.runs(xs, l)): return False
                if kind == "exactlyrow" and any(r != c[3] for r in self.runs(xs, l)): return False
                if kind == "exactlyk" and xs.count(l) != c[3]: return False
        return True
    def enumerate(self, limit=300000):
        g = self.geometry(); T = g["T"]
        names = list(self.basics)
        per_trial = list(itertools.product(*[[l[0] for l in self.basics[n]] for n in names]))
        if len(per_trial) ** T > limit: return None
        allcross = [set(c) for c in self.mspec["crossings"] if c]
        out = Counter()
        for choice in itertools.product(per_trial, repeat=T):
            seq = {n: [choice[t][i] for t in range(T)] for i, n in enumerate(names)}
            for d in self.mspec["derived"]:
                f = d[0]; seq[f] = [self.derive(f, seq, t) if self.applicable(f, t) else '' for t in range(T)] if False else None
            for d in self.mspec["derived"]:
                f = d[0]; seq[f] = []
                for t in range(T): seq[f].append(self.derive(f, seq, t) if self.applicable(f, t) else '')
            if self.valid(seq, g):
                mult = 1
                for n in names:
                    if not all(n in c for c in allcross):
                        wd = dict(self.basics[n])
                        for v in seq[n]: mult *= wd[v]
                out[tuple(sorted((k, tuple(v)) for k, v in seq.items()))] += mult
        return out
