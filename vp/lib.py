"""Driving the library under test: sampling, exhaustion, child-process isolation."""
import os
import pickle
import signal
import time

from . import env, satutil


def gens():
    import sweetpea as sp
    return {"IterateSATGen": sp.IterateSATGen, "RandomGen": sp.RandomGen, "CMSGen": sp.CMSGen, "UniGen": sp.UniGen,
            "IterateGen": sp.IterateGen, "UniformGen": sp.UniformGen, "SMGen": sp.SMGen}


def synth(block, n, gen_name, seed=0, limit=None):
    """synthesize_trials with captured output.  Returns (experiments, captured text).  Raises whatever escapes."""
    import sweetpea as sp
    env.seed_library_rngs(seed)
    with env.quiet() as buf:
        with env.time_limit(limit):
            res = sp.synthesize_trials(block, n, gens()[gen_name])
    return res, buf.getvalue()


def canon(exp):
    return tuple(sorted((str(k), tuple('' if x is None else x for x in v)) for k, v in exp.items()))


def visible(exp):
    from sweetpea._internal.primitive import HiddenName
    return {k: v for k, v in exp.items() if not isinstance(k, HiddenName)}


def block_errors(block):
    """what show_errors() would report as failure (non-warning errors)"""
    return [e for e in block.errors if "WARNING" not in e]


def cnf_clauses(block):
    from sweetpea._internal.server import build_cnf
    with env.quiet():
        cnf = build_cnf(block)
    return cnf.as_list_of_list_of_ints()


def exhaust_sat_inprocess(block, cap):
    """All trial sequences the formula-based samplers can return: projected models of build_cnf(block), decoded the
    way the samplers decode.  Returns (list of experiments, complete?)."""
    from sweetpea._internal.sampling_strategy.base import Gen
    with env.quiet():
        clauses = cnf_clauses(block)
        if block.show_errors():
            return [], True
    support = block.variables_per_sample()
    ms = satutil.models(clauses, range(1, support + 1), cap=cap + 1)
    out = []
    for m in ms[:cap]:
        lits = [(i + 1) if b else -(i + 1) for i, b in enumerate(m)]
        with env.quiet():
            e = Gen.decode(block, lits)
            e = block.add_implied_levels(e)
        out.append(visible(e))
    return out, len(ms) <= cap


def in_child(fn, timeout):
    """Run fn() in a forked child; returns ('ok', value) | ('exc', (type name, bucket, message)) | ('exit', status) |
    ('timeout', None).  Needed for UniGen (may terminate the interpreter) and SMGen (non-daemon timer, endless search)."""
    r, w = os.pipe()
    pid = os.fork()
    if pid == 0:
        os.close(r)
        status = 0
        try:
            try:
                val = ("ok", fn())
            except env.CaseTimeout:
                val = ("timeout", None)
            except BaseException as e:  # noqa
                val = ("exc", (type(e).__name__, env.exc_bucket(e) if isinstance(e, Exception) else type(e).__name__, str(e)[:500]))
            data = pickle.dumps(val)
            with os.fdopen(w, "wb") as f:
                f.write(data)
        except BaseException:
            status = 3
        finally:
            os._exit(status)
    os.close(w)
    deadline = time.time() + timeout
    chunks = []
    import select
    f = os.fdopen(r, "rb")
    try:
        while True:
            remaining = deadline - time.time()
            if remaining <= 0:
                os.kill(pid, signal.SIGKILL)
                os.waitpid(pid, 0)
                return ("timeout", None)
            rl, _, _ = select.select([f], [], [], min(remaining, 0.5))
            if rl:
                data = f.read()
                chunks.append(data)
                break
            done, status = os.waitpid(pid, os.WNOHANG)
            if done:
                data = f.read()
                chunks.append(data)
                pid = None
                if not data:
                    return ("exit", status)
                break
    finally:
        f.close()
    if pid is not None:
        try:
            _, status = os.waitpid(pid, 0)
        except ChildProcessError:
            status = 0
    data = b"".join(chunks)
    if not data:
        return ("exit", status)
    try:
        return pickle.loads(data)
    except Exception:
        return ("exit", status)
