"""spec -> fresh SweetPea objects, through the public API only."""
from . import env, spec as S


class BuildRejected(Exception):
    """A constructor of the library refused the design (counted, never a violation by itself)."""

    def __init__(self, exc, stage):
        super().__init__("%s: %s" % (type(exc).__name__, exc))
        self.exc = exc
        self.stage = stage


def _predicate(d, i, width, is_else=False):
    def key_of(args):
        if width == 1:
            return list(args)
        return [[a[j - (width - 1)] for j in range(width)] if a is not None else None for a in args]

    def p(*args):
        v = S.table_index(d, key_of(args))
        if isinstance(v, list):
            return i in v
        return v == i
    return p


class Built:
    def __init__(self, spec):
        self.spec = spec
        self.F = {}          # factor name -> Factor object
        self.block = None
        self.blocks = []     # every block object created, innermost first
        self.constraint_objects = []
        self.cont_factors = []
        self.cont_constraints = []

    def level(self, fname, lname):
        return self.F[fname].get_level(lname)


def make_factors(spec, B):
    import sweetpea as sp
    for f in spec["factors"]:
        lv = [sp.Level(n, w) if w > 1 else n for n, w in f["levels"]]
        B.F[f["name"]] = sp.Factor(f["name"], lv)
    for d in spec["derived"]:
        width, stride, start = S.window_of(d)
        args = [B.F[a] for a in d["args"]]
        levels = []
        n = len(d["levels"])
        for i, (lname, w) in enumerate(d["levels"]):
            if d.get("else_last") and i == n - 1:
                levels.append(sp.ElseLevel(lname, w) if w > 1 else sp.ElseLevel(lname))
                continue
            pred = _predicate(d, i, width)
            if d["kind"] == "within":
                win = sp.WithinTrial(pred, args)
            elif d["kind"] == "transition":
                win = sp.Transition(pred, args)
            else:
                win = sp.Window(pred, args, width, stride, start)
            levels.append(sp.DerivedLevel(lname, win, w) if w > 1 else sp.DerivedLevel(lname, win))
        B.F[d["name"]] = sp.Factor(d["name"], levels)


def make_constraint(c, B):
    import sweetpea as sp
    k = c["kind"]
    if k == "min":
        return sp.MinimumTrials(c["k"])
    if k == "sequential":
        return sp.Sequential(B.F[c["factor"]])
    if k == "latin":
        return sp.LatinSquare([B.F[f] for f in c["factors"]])
    f = B.F[c["factor"]]
    tgt = f if c.get("level") is None else (f, c["level"])
    if k == "exclude":
        return sp.Exclude(tgt)
    if k == "pin":
        return sp.Pin(c["index"], tgt)
    if k == "atmost":
        return sp.AtMostKInARow(c["k"], tgt)
    if k == "atleast":
        return sp.AtLeastKInARow(c["k"], tgt)
    if k == "exactly_row":
        return sp.ExactlyKInARow(c["k"], tgt)
    if k == "exactly_k":
        return sp.ExactlyK(c["k"], tgt)
    raise ValueError(k)


def _mode(m):
    import sweetpea as sp
    return {"equal": sp.RepeatMode.EQUAL, "repeat": sp.RepeatMode.REPEAT, "weight": sp.RepeatMode.WEIGHT}[m]


def _align(a):
    import sweetpea as sp
    if a is None:
        return None
    return {"equal preamble": sp.AlignmentMode.EQUAL_PREAMBLE, "post preamble": sp.AlignmentMode.POST_PREAMBLE,
            "parallel start": sp.AlignmentMode.PARALLEL_START}[a]


def make_block(b, B, constraint_hook=None):
    import sweetpea as sp
    mk = constraint_hook or (lambda c: make_constraint(c, B))
    cs = [mk(c) for c in b.get("constraints", [])]
    B.constraint_objects.extend(cs)
    t = b["type"]
    if t == "cross":
        blk = sp.CrossBlock([B.F[n] for n in b["design"]] + B.cont_factors, [B.F[n] for n in b["crossing"]], cs + B.cont_constraints, b["rcc"])
    elif t == "multi":
        blk = sp.MultiCrossBlock([B.F[n] for n in b["design"]] + B.cont_factors, [[B.F[n] for n in c] for c in b["crossings"]], cs + B.cont_constraints,
                                 b["rcc"], _mode(b["mode"]), _align(b["alignment"]))
    elif t == "repeat":
        inner = make_block(b["block"], B, constraint_hook)
        blk = sp.Repeat(inner, cs)
    elif t == "merge":
        inner = [make_block(x, B, constraint_hook) for x in b["blocks"]]
        # without constraints the library's default argument is used, as a user would write it
        blk = (sp.Merge(inner, cs, _mode(b["mode"]), _align(b.get("alignment"))) if cs else
               sp.Merge(inner, mode=_mode(b["mode"]), alignment=_align(b.get("alignment"))))
    elif t == "nest":
        outer = make_block(b["outer"], B, constraint_hook)
        inner = make_block(b["inner"], B, constraint_hook)
        blk = (sp.Nest(outer, inner, cs, _align(b.get("alignment"))) if cs else
               sp.Nest(outer, inner, alignment=_align(b.get("alignment"))))
    else:
        raise ValueError(t)
    B.blocks.append(blk)
    return blk


def build(spec):
    """Returns Built or raises BuildRejected."""
    B = Built(spec)
    with env.quiet():
        try:
            make_factors(spec, B)
        except Exception as e:
            raise BuildRejected(e, "factors")
        if spec.get("continuous"):
            from . import cont
            try:
                level_index = {l[0]: i + 1 for f in spec["factors"] for i, l in enumerate(f["levels"])}
                B.cont_factors, B.cont_constraints = cont.build(spec["continuous"], spec.get("ccons", []), B.F, level_index)
            except Exception as e:
                raise BuildRejected(e, "continuous")
        try:
            B.block = make_block(spec["block"], B)
        except Exception as e:
            raise BuildRejected(e, "block")
    return B
