"""./check <Cnn> --tier quick|thorough   |   ./check <Cnn> --replay <file>

Exit 0: held on everything explored (KNOWN-FINDING lines allowed); 1: VIOLATION; 2: harness error.
"""
import argparse
import glob
import importlib
import json
import os
import sys
import time
import traceback

from . import env, evidence, known, runner, shrink


def load_module(prop):
    return importlib.import_module("vp.props.%s" % prop.lower())


def replay_dir(prop):
    return os.path.join(env.VERIF, "replays", prop)


def write_replay(prop, bucket, case, message, seed, tier):
    d = os.path.join(os.environ["VERIF_EVIDENCE_DIR"], "found", prop) if os.environ.get("VERIF_EVIDENCE_DIR") else os.path.join(replay_dir(prop), "found")
    os.makedirs(d, exist_ok=True)
    safe = "".join(ch if ch.isalnum() or ch in "-_." else "_" for ch in bucket)[:80]
    path = os.path.join(d, "%s-%s.json" % (safe, runner.digest(case)))
    with open(path, "w") as f:
        json.dump({"property": prop, "bucket": bucket, "expect": "pass", "message": message,
                   "found_by": {"tier": tier, "seed": seed}, "case": case}, f, indent=1, default=str)
        f.write("\n")
    return path


def run_case(mod, case):
    """Failures of one case, executed in a private directory with harness errors separated."""
    here = os.getcwd()
    env.enter_private_dir()
    try:
        return list(mod.check_case(case) or [])
    finally:
        os.chdir(here)


def do_replay(prop, mod, path):
    data = json.load(open(path))
    case = data["case"] if isinstance(data, dict) and "case" in data else data
    try:
        fails = run_case(mod, case)
    except env.CaseTimeout:
        print("INCONCLUSIVE property=%s replay=%s (time limit)" % (prop, path))
        return 0
    if not fails:
        print("PASS property=%s replay=%s" % (prop, path))
        return 0
    unknown = []
    for f in fails:
        kid = known.match(prop, f)
        if kid:
            print("KNOWN-FINDING: property=%s %s (%s) replay=%s" % (prop, kid, f["bucket"], path))
        else:
            unknown.append(f)
    for f in unknown:
        print("  bucket=%s %s" % (f["bucket"], f["message"][:300]))
    if unknown:
        print("VIOLATION property=%s replay=%s" % (prop, path))
        return 1
    return 0


def main(argv=None):
    ap = argparse.ArgumentParser()
    ap.add_argument("prop")
    ap.add_argument("--tier", default=os.environ.get("VERIF_TIER", "quick"), choices=["quick", "thorough"])
    ap.add_argument("--replay")
    ap.add_argument("--seed", type=int, default=None)
    ap.add_argument("--no-shrink", action="store_true")
    args = ap.parse_args(argv)
    prop = args.prop.upper()
    if args.seed is not None:
        seed = args.seed
    else:
        raw = (os.environ.get("VERIF_SEED", "1") or "1").strip()
        try:
            seed = int(raw)
        except ValueError:                      # any string is a seed: use a stable hash of it
            import zlib
            seed = zlib.crc32(raw.encode())
    t0 = time.time()
    try:
        mod = load_module(prop)
    except Exception:
        traceback.print_exc()
        print("HARNESS-ERROR property=%s cannot import check module" % prop)
        return 2
    try:
        if args.replay:
            return do_replay(prop, mod, args.replay)
        return do_run(prop, mod, args.tier, seed, t0, args.no_shrink)
    except Exception:
        traceback.print_exc()
        print("HARNESS-ERROR property=%s" % prop)
        return 2
    finally:
        env.cleanup_scratch()


def do_run(prop, mod, tier, seed, t0, no_shrink):
    violations = []   # (bucket, path)
    known_hits = {}
    stale = []

    # ---- 1. replay tier: committed regression inputs and known-finding exemplars
    replayed = 0
    for path in sorted(glob.glob(os.path.join(replay_dir(prop), "*.json"))):
        data = json.load(open(path))
        expect = data.get("expect", "pass")
        try:
            fails = run_case(mod, data["case"])
        except env.CaseTimeout:
            continue
        replayed += 1
        unknown = []
        for f in fails:
            kid = known.match(prop, f)
            if kid:
                known_hits[kid] = known_hits.get(kid, 0) + 1
            else:
                unknown.append(f)
        if unknown:
            violations.append((unknown[0]["bucket"], path, unknown[0]["message"]))
        if expect.startswith("known:") and not fails:
            stale.append((expect[6:], path))

    # ---- 2. generated search
    acc = mod.run(tier, seed)
    if acc.harness_errors:
        for h in acc.harness_errors[:3]:
            print(h, file=sys.stderr)
            print("HARNESS-ERROR-DETAIL property=%s %s" % (prop, " | ".join(str(h).strip().splitlines()[-4:])[:600]))
        print("HARNESS-ERROR property=%s %d worker error(s)" % (prop, len(acc.harness_errors)))
        return 2

    # ---- 3. classify failures
    buckets = {}
    for f in acc.failures:
        kid = known.match(prop, f)
        if kid:
            known_hits[kid] = known_hits.get(kid, 0) + 1
            continue
        buckets.setdefault(f["bucket"], []).append(f)

    # ---- 4. shrink one exemplar per unknown bucket, write replays
    for bucket, fs in sorted(buckets.items()):
        fs.sort(key=lambda f: len(runner.canon(f["case"])))
        ex = fs[0]
        case = ex["case"]
        if not no_shrink and hasattr(mod, "check_case") and getattr(mod, "SHRINK", True):
            def still(c, bucket=bucket):
                try:
                    with env.time_limit(getattr(mod, "CASE_LIMIT_S", 30)):
                        return any(g["bucket"] == bucket and not known.match(prop, g) for g in run_case(mod, c))
                except env.CaseTimeout:
                    return False
            try:
                if still(case):
                    case, _ = shrink.shrink(case, still, budget_s=float(os.environ.get("VERIF_SHRINK_S", "45")))
            except Exception:
                pass
        path = write_replay(prop, bucket, case, ex["message"], seed, tier)
        violations.append((bucket, path, ex["message"]))

    # ---- 5. report
    for f in known.open_findings(prop):
        print("KNOWN-FINDING: property=%s %s: %s (seen %d time(s) this run)"
              % (prop, f["id"], f["what_fails"], known_hits.get(f["id"], 0)))
    for kid, path in stale:
        print("NOTE property=%s known finding %s no longer reproduces on %s" % (prop, kid, path))
    wall = time.time() - t0
    ev = evidence.build(prop, tier, seed, acc, wall, len(violations), getattr(mod, "RULE", ""),
                        level=getattr(mod, "LEVEL", "exploration"),
                        assumptions=getattr(mod, "ASSUMPTIONS", []),
                        extra={"replayed_files": replayed,
                               "buckets": {b: len(fs) for b, fs in buckets.items()},
                               "known_finding_hits": known_hits,
                               "exhaustive": bool(acc.extra.get("exhaustive", False))})
    path, errs = evidence.write(ev)
    cov = ev["coverage"]
    print("property=%s tier=%s seed=%d evaluations=%d distinct_nontrivial=%d discarded=%d inconclusive=%d wall=%.1fs"
          % (prop, tier, seed, cov["evaluations"], cov["distinct_nontrivial"], sum(acc.discarded.values()),
             acc.inconclusive, wall))
    if errs:
        print("HARNESS-ERROR property=%s evidence does not validate: %s" % (prop, "; ".join(errs[:3])))
        for b, p, m in violations:
            print("VIOLATION property=%s replay=%s" % (prop, p))
        return 1 if violations else 2
    if violations:
        for b, p, m in violations:
            print("  bucket=%s %s" % (b, str(m)[:400].replace("\n", " | ")))
            print("VIOLATION property=%s replay=%s" % (prop, p))
        return 1
    return 0


if __name__ == "__main__":
    sys.exit(main())
