"""Independent reference model of the DOCUMENTED semantics of SweetPea designs (DESIGN.md section 4).

Never imports sweetpea.  Input: a spec (vp/spec.py).  Output: trial count, validity predicate, exhaustive
enumeration with multiplicities, and a list of ambiguity labels (documentation leaves a choice that matters for
this spec -> the spec is outside D_ref).
"""
import itertools
from collections import Counter

from . import spec as S


class Unsupported(Exception):
    pass


class Ref:
    def __init__(self, spec):
        self.spec = spec
        self.basic = {f["name"]: f for f in spec["factors"]}
        self.derived = {d["name"]: d for d in spec["derived"]}
        self.order = [f["name"] for f in spec["factors"]] + [d["name"] for d in spec["derived"]]
        self.ambiguous = []
        self.start = {}
        self.win = {}
        for n in self.basic:
            self.start[n] = 0
        for d in spec["derived"]:
            w, s, st = S.window_of(d)
            ready = max(self.start[a] for a in d["args"])
            default = ready + w - 1
            self.start[d["name"]] = default if st is None else st
            self.win[d["name"]] = (w, s)
            if any(a in self.derived and self.win[a][1] > 1 for a in d["args"]):
                raise Unsupported("argument with stride > 1")
        self.level_names = {n: [l[0] for l in S.levels_of(spec, n)] for n in self.order}
        self.level_weight = {n: {l[0]: l[1] for l in S.levels_of(spec, n)} for n in self.order}
        self.C = self.compile(spec["block"])

    # ------------------------------------------------------------------ basics
    def amb(self, why):
        if why not in self.ambiguous:
            self.ambiguous.append(why)

    def is_complex(self, f):
        if f in self.basic:
            return False
        w, s = self.win[f]
        return w > 1 or s > 1 or self.start[f] > 0

    def applicable(self, f, t):
        if f in self.basic:
            return True
        return t >= self.start[f] and (t - self.start[f]) % self.win[f][1] == 0

    def window_key(self, f, seq, t, sustain=1):
        d = self.derived[f]
        w = self.win[f][0]
        key = []
        for a in d["args"]:
            ws = []
            for i in range(w):
                tt = t - (w - 1 - i) * sustain
                v = seq[a][tt] if tt >= 0 else None
                ws.append(v if v != '' else None)
            key.append(ws)
        if w == 1:
            key = [k[0] for k in key]
        return key

    def derive(self, f, seq, t, sustain=1):
        """level name selected by the table, or None (gap) / list (overlap)"""
        d = self.derived[f]
        v = S.table_index(d, self.window_key(f, seq, t, sustain))
        if isinstance(v, int):
            return d["levels"][v][0]
        return v

    def basic_deps(self, f):
        """transitive basic-factor dependencies of a within-trial derived factor; None if a complex factor is involved"""
        out = set()
        for a in self.derived[f]["args"]:
            if a in self.basic:
                out.add(a)
            else:
                if self.is_complex(a):
                    return None
                sub = self.basic_deps(a)
                if sub is None:
                    return None
                out |= sub
        return out

    def derive_chain(self, f, tr):
        """value of within-trial derived factor f for the single-trial assignment tr (dict name -> [value])"""
        for a in self.derived[f]["args"]:
            if a not in tr:
                tr[a] = [self.derive_chain(a, tr)]
        v = self.derive(f, tr, 0)
        return v if isinstance(v, str) else None

    # ------------------------------------------------------------------ crossing arithmetic
    def excluded_levels(self, constraints):
        return {(c["factor"], c["level"]) for c in constraints if c["kind"] == "exclude"}

    def _trial_assignments(self, design, excluded, honour_excluded_args):
        """single-trial assignments of the basic design factors with within-trial derived factors evaluated"""
        names = [n for n in design if n in self.basic]
        noncomplex = [n for n in self.order if n in design and n in self.derived and not self.is_complex(n)]
        out = []
        for vals in itertools.product(*[self.level_names[n] for n in names]):
            tr = {n: [v] for n, v in zip(names, vals)}
            ok = True
            if honour_excluded_args and any((n, v) in excluded for n, v in zip(names, vals)):
                ok = False
            for f in noncomplex:
                if all(a in tr for a in self.derived[f]["args"]):
                    v = self.derive(f, tr, 0)
                    tr[f] = [v if isinstance(v, str) else None]
                    if honour_excluded_args and (f, tr[f][0]) in excluded:
                        ok = False
            if ok:
                out.append({k: v[0] for k, v in tr.items()})
        return out

    def crossing_info(self, crossing, design, constraints, rcc):
        """possible combinations (dict combo -> weight), S, preamble p for one crossing"""
        excluded = self.excluded_levels(constraints)
        combos = list(itertools.product(*[self.level_names[f] for f in crossing]))
        simple = [f for f in crossing if not self.is_complex(f)]
        # a level of a crossed COMPLEX-window factor that no window input selects at all (the library reports
        # "No matches to the crossed factor ... predicate"): with require_complete_crossing the design has no valid
        # sequence; without it the documentation allows a reduced crossing but the library keeps its size -> ambiguous
        self.unmatched_complex = False
        for f in crossing:
            if f in self.derived and self.is_complex(f):
                d = self.derived[f]
                w = self.win[f][0]
                per_arg = [list(itertools.product(self.level_names[a], repeat=w)) for a in d["args"]]
                hit = set()
                for key in itertools.product(*per_arg):
                    k = [list(x) for x in key] if w > 1 else [x[0] for x in key]
                    v = S.table_index(d, k)
                    for i in (v if isinstance(v, list) else [v]):
                        if isinstance(i, int):
                            hit.add(i)
                if len(hit) < len(d["levels"]):
                    self.unmatched_complex = True

        def possible(honour):
            tas = self._trial_assignments(design, excluded, honour)
            poss = []
            for c in combos:
                if any((f, l) in excluded for f, l in zip(crossing, c)):
                    continue
                want = {f: l for f, l in zip(crossing, c) if f in simple}
                if any(all(ta.get(f) == l for f, l in want.items()) for ta in tas):
                    poss.append(c)
            return poss
        direct = [c for c in combos if not any((f, l) in excluded for f, l in zip(crossing, c))]
        # the well-trodden case (maintainers' acceptance tests, crossing_size() == 5 for the 3x2 Stroop with an excluded
        # 'illegal' level): an excluded level of an UNcrossed within-trial derived factor all of whose basic dependencies
        # are crossed removes the combinations that produce it - under every reading
        benign = set()
        for (ef, el) in excluded:
            if ef in self.derived and ef not in crossing and not self.is_complex(ef) and ef in design:
                deps = self.basic_deps(ef)
                if deps is not None and deps <= set(crossing):
                    for c in direct:
                        tr = {g: [m] for g, m in zip(crossing, c)}
                        if self.derive_chain(ef, tr) == el:
                            benign.add(c)
        direct_b = [c for c in direct if c not in benign]
        poss_a = possible(True)
        poss_b = [c for c in possible(False) if c not in benign]
        if poss_a != poss_b:
            self.amb("excluded-arg")
        # separate-per-level reading (each derived level judged on its own)
        poss_sep = []
        tas = self._trial_assignments(design, excluded, False)
        for c in combos:
            if any((f, l) in excluded for f, l in zip(crossing, c)) or c in benign:
                continue
            ok = True
            for f, l in zip(crossing, c):
                if f in self.derived and f in simple:
                    fixed = {g: m for g, m in zip(crossing, c) if g in self.derived[f]["args"]}
                    if not any(ta.get(f) == l and all(ta.get(g) == m for g, m in fixed.items()) for ta in tas):
                        ok = False
            if ok:
                poss_sep.append(c)
        if poss_sep != poss_a:
            self.amb("joint-vs-separate")
        poss = poss_a
        weight = {}
        for c in poss:
            w = 1
            for f, l in zip(crossing, c):
                w *= self.level_weight[f][l]
            weight[c] = w
        removed = len(poss) != len(combos)
        if self.unmatched_complex:
            removed = True
            if not rcc:
                self.amb("unmatched-level-of-crossed-complex-factor")
        indirect = poss_a != direct_b or poss_b != direct_b or poss_sep != direct_b
        p = max([self.start[f] for f in crossing], default=0)
        return {"factors": list(crossing), "poss": weight, "S": sum(weight.values()), "p": p, "removed": removed,
                "removed_indirect": indirect}

    # ------------------------------------------------------------------ compilation of blocks
    def compile(self, b):
        t = b["type"]
        if t == "cross":
            return self.compile_leaf(b, [b["crossing"]], "weight", "equal preamble")
        if t == "multi":
            return self.compile_leaf(b, b["crossings"], b["mode"], b["alignment"])
        if t == "repeat":
            if any(c["kind"] == "exclude" for c in b["constraints"]):
                raise Unsupported("Exclude in Repeat constraints (documented restriction)")
            return self.compile_merge([b["block"]], b["constraints"], "repeat", "equal preamble")
        if t == "merge":
            return self.compile_merge(b["blocks"], b["constraints"], b["mode"], b.get("alignment"))
        if t == "nest":
            return self.compile_nest(b)
        raise Unsupported("block type %s" % t)

    # ------------------------------------------------------------------ combinators (documentation: main.rst Merge / Repeat / Nest)
    COUNT_KINDS = ("exactly_k", "atleast", "exactly_row")

    def compile_merge(self, blocks, cs, mode, alignment):
        for x in blocks:
            if x["type"] not in ("cross", "multi"):
                raise Unsupported("Merge/Repeat over a combinator block")
        subs = []
        for x in blocks:
            if x["type"] == "cross":
                subs.append((x, self.compile_leaf(x, [x["crossing"]], "weight", "equal preamble"), "equal preamble"))
            else:
                subs.append((x, self.compile_leaf(x, x["crossings"], x["mode"], x["alignment"]), x["alignment"]))
        if alignment is None:
            alignment = subs[0][2]
        if len({x["rcc"] for x, _, _ in subs}) > 1:
            self.amb("mixed-require-complete-crossing")      # the library takes all(...); the documentation only defines equal flags
        design = [n for n in self.order if any(n in x["design"] for x, _, _ in subs)]
        C = {"design": design, "unsat": False, "unspecified_T": False, "sustain": {}, "crossings": [], "checks": [], "mult": []}
        if any(c["unspecified_T"] for _, c, _ in subs):
            C["unsat"] = C["unspecified_T"] = True
            C["T"] = None
            for _, c, _ in subs:
                for a in ("rcc-with-removal", "empty-crossing", "all-levels-excluded"):
                    if a in self.ambiguous:
                        pass
            return C
        crossed_sets = [set(i["factors"]) for _, c, _ in subs for i in c["crossings"]]
        for a in range(len(crossed_sets)):
            for b2 in range(a + 1, len(crossed_sets)):
                if len(subs) > 1 and crossed_sets[a] & crossed_sets[b2]:
                    self.amb("merge-overlapping-crossings")
        self._note_cross_member_excludes([x for x, _, _ in subs], cs)
        infos = []
        for x, c, _ in subs:
            own = [i for i in c["crossings"]]
            if own and c["T"] != max(i["p"] + i["S"] for i in own):
                self.amb("partial-inner")          # the member block is itself scaled by MinimumTrials
            if not own and c["T"] != 1:
                self.amb("partial-inner")
            for i in own:
                j = dict(i)
                infos.append(j)
        mins = [c["k"] for c in cs if c["kind"] == "min"]
        T_members = [c["T"] for _, c, _ in subs]
        if infos:
            ps = {i["p"] for i in infos}
            if alignment == "post preamble":
                P = max(ps)
                for i in infos:
                    i["start"] = P
            else:
                if alignment == "equal preamble" and len(ps) > 1:
                    raise Unsupported("equal preamble with different preambles (constructor must refuse)")
                for i in infos:
                    i["start"] = i["p"]
        T = max(T_members + mins + [1])
        if infos:
            T = max(T, max(i["start"] + i["S"] for i in infos))
        C["T"] = T
        for i in infos:
            n = T - i["start"]
            if mode == "repeat":
                i["w"], i["chunk"] = 1, i["S"]
            else:
                i["w"] = -(-n // i["S"])
                i["chunk"] = i["S"] * i["w"]
                if i["w"] != -(-(T - i["p"]) // i["S"]):
                    self.amb("post-preamble-replication")
                if mode == "equal" and i["w"] != 1:
                    raise Unsupported("equal mode with unequal sizes (constructor must refuse)")
            i["sustain"] = 1
            C["crossings"].append(i)
        # member-block constraints: once per repetition of that block (window includes the preceding preamble trials)
        for x, c, _ in subs:
            L = c["T"]
            pcs = {i["p"] for i in c["crossings"]}
            p = max(pcs) if pcs else 0
            if len(pcs) > 1 and c["checks"]:
                self.amb("member-constraints-with-several-preambles")
            if alignment == "post preamble" and infos and p != max(i["p"] for i in infos) and c["checks"]:
                self.amb("member-constraints-under-post-preamble")
            step = max(1, L - p)
            windows = []
            lo = 0
            while lo < T - p or not windows:
                windows.append((lo, min(T, lo + L)))
                lo += step
                if lo >= T:
                    break
            for con, _w in c["checks"]:
                if con["kind"] in ("sequential", "latin"):
                    self.amb("order-constraint-in-member-block")
                if windows[-1][1] - windows[-1][0] < L and (con["kind"] in self.COUNT_KINDS or con["kind"] == "pin"):
                    self.amb("truncated-window")
                C["checks"].append((con, list(windows)))
        for con in cs:
            if con["kind"] == "min":
                continue
            C["checks"].append((con, [(0, T)]))
        self.note_constraint_ambiguities(C, cs)
        self._multiplicities(C)
        return C

    def _note_cross_member_excludes(self, leaves, cs):
        """an Exclude given to one member block (or to the combinator) that would change ANOTHER member's crossing: the
        documentation scopes block constraints to the block, the library merges all constraints"""
        all_ex = [c for x in leaves for c in x["constraints"] if c["kind"] == "exclude"] + [c for c in cs if c["kind"] == "exclude"]
        if not all_ex:
            return
        for x in leaves:
            own = [c for c in x["constraints"] if c["kind"] == "exclude"]
            if len(own) == len(all_ex):
                continue
            for cr in ([x["crossing"]] if x["type"] == "cross" else x["crossings"]):
                if not cr:
                    continue
                saved = list(self.ambiguous)
                a = self.crossing_info(cr, x["design"], own, x["rcc"])
                b = self.crossing_info(cr, x["design"], all_ex, x["rcc"])
                self.ambiguous = saved
                if a["poss"] != b["poss"]:
                    self.amb("exclude-across-members")
                    return

    def _multiplicities(self, C):
        infos = C["crossings"]
        in_all = set(self.order)
        for i in infos:
            in_all &= set(i["factors"])
        if not infos:
            in_all = set()
        in_some = set()
        for i in infos:
            in_some |= set(i["factors"])
        for n in C["design"]:
            if n in self.basic and n not in in_all and any(l[1] > 1 for l in self.basic[n]["levels"]):
                C["mult"].append(n)
                if n in in_some:
                    self.amb("weighted-partially-crossed")

    def compile_nest(self, b):
        def comp(x):
            if x["type"] == "cross":
                return self.compile_leaf(x, [x["crossing"]], "weight", "equal preamble")
            if x["type"] == "multi":
                return self.compile_leaf(x, x["crossings"], x["mode"], x["alignment"])
            if x["type"] == "nest":
                return self.compile_nest(x)
            raise Unsupported("Nest over Repeat/Merge")
        Co, Ci = comp(b["outer"]), comp(b["inner"])
        cs = b["constraints"]
        leaves = [x for x in S.iter_blocks(b) if x["type"] in ("cross", "multi")]
        self._note_cross_member_excludes(leaves, cs)
        if len({x["rcc"] for x in leaves}) > 1:
            self.amb("mixed-require-complete-crossing")
        design = [n for n in self.order if n in Co["design"] or n in Ci["design"]]
        C = {"design": design, "unsat": False, "unspecified_T": False, "sustain": {}, "crossings": [], "checks": [], "mult": []}
        if Co["unspecified_T"] or Ci["unspecified_T"]:
            C["unsat"] = C["unspecified_T"] = True
            C["T"] = None
            return C
        if any(i["start"] > 0 for i in Co["crossings"] + Ci["crossings"]):
            raise Unsupported("Nest with preamble trials")
        oc = set(f for i in Co["crossings"] for f in i["factors"])
        ic = set(f for i in Ci["crossings"] for f in i["factors"])
        if oc & ic:
            raise Unsupported("factor crossed in both outer and inner block (constructor must refuse)")
        if any(f in self.derived and self.is_complex(f) for f in oc):
            self.amb("derived-outer-in-nest")
        To, Ti = Co["T"], Ci["T"]
        for i in Ci["crossings"]:
            if Ti % (i["chunk"] * i.get("sustain", 1)) != 0:
                self.amb("partial-inner")
        mins = [c["k"] for c in cs if c["kind"] == "min"]
        T = To * Ti
        if any(m > T for m in mins):
            self.amb("minimum-trials-on-nest")
        C["T"] = T
        for i in Co["crossings"]:
            j = dict(i)
            j["sustain"] = i.get("sustain", 1) * Ti
            if i.get("tile"):
                j["tile"] = i["tile"] * Ti
            C["crossings"].append(j)
        for i in Ci["crossings"]:
            j = dict(i)
            j["sustain"] = i.get("sustain", 1)
            j["tile"] = i.get("tile", Ti)        # the crossing restarts with every inner run
            C["crossings"].append(j)
        for con, windows in Co["checks"]:
            if con["kind"] != "exclude":
                self.amb("outer-constraint-in-nest")
            C["checks"].append((con, [(lo * Ti, hi * Ti) for lo, hi in windows]))
        def targets(con):
            return set(con.get("factors") or [con.get("factor")])
        for con, windows in Ci["checks"]:
            if con["kind"] in ("sequential", "latin"):
                self.amb("order-constraint-in-member-block")     # does the cycle restart with every inner run?
            if con["kind"] != "exclude" and targets(con) & oc:
                self.amb("constraint-on-sustained-factor")      # per trial or per group?  the documentation does not say
            C["checks"].append((con, [(g * Ti + lo, g * Ti + hi) for g in range(To) for lo, hi in windows]))
        for con in cs:
            if con["kind"] != "min":
                if con["kind"] != "exclude" and targets(con) & oc:
                    self.amb("constraint-on-sustained-factor")
                C["checks"].append((con, [(0, T)]))
        self.note_constraint_ambiguities(C, cs)
        self._multiplicities(C)
        return C

    def compile_leaf(self, b, crossings, mode, alignment):
        cons = b["constraints"]
        design = b["design"]
        crossings = [c for c in crossings if c]
        C = {"design": [n for n in self.order if n in design], "unsat": False, "unspecified_T": False,
             "sustain": {}, "crossings": [], "checks": [], "mult": []}
        for c in crossings:
            for f in c:
                if f in self.derived and self.win[f][1] > 1:
                    raise Unsupported("stride>1 in crossing")
        infos = [self.crossing_info(c, design, cons, b["rcc"]) for c in crossings]
        mins = [c["k"] for c in cons if c["kind"] == "min"]
        if any(i["removed"] for i in infos) and b["rcc"]:
            C["unsat"] = True
            C["unspecified_T"] = True
            self.amb("rcc-with-removal")
        if any(i["S"] == 0 for i in infos):
            C["unsat"] = True
            C["unspecified_T"] = True
            self.amb("empty-crossing")
        # every level of some design factor excluded -> no sequence, trial count unspecified
        excl = self.excluded_levels(cons)
        for n in C["design"]:
            if all((n, l) in excl for l in self.level_names[n]):
                if n in self.derived and self.is_complex(n):
                    # a factor that has no level in its first trials (or, in a short sequence, in none at all) can lose
                    # every level and still leave valid sequences: nothing is claimed about such a design
                    C["unspecified_T"] = True
                    self.amb("all-levels-of-late-factor-excluded")
                    continue
                C["unsat"] = True
                C["unspecified_T"] = True
                self.amb("all-levels-excluded")
        if C["unspecified_T"]:
            C["T"] = None
            return C
        if not infos:
            T = max([1] + mins)
            C["T"] = T
        else:
            if alignment == "post preamble":
                P = max(i["p"] for i in infos)
                for i in infos:
                    i["start"] = P
                T = P + max(i["S"] for i in infos)
            else:
                for i in infos:
                    i["start"] = i["p"]
                if alignment == "equal preamble" and len({i["p"] for i in infos}) > 1:
                    raise Unsupported("equal preamble with different preambles (constructor must refuse)")
                T = max(i["p"] + i["S"] for i in infos)
            T = max([T, 1] + mins)
            C["T"] = T
            for i in infos:
                n = T - i["start"]
                if mode == "repeat":
                    i["w"], i["chunk"] = 1, i["S"]
                else:
                    i["w"] = -(-n // i["S"])
                    i["chunk"] = i["S"] * i["w"]
                    if i["w"] != -(-(T - i["p"]) // i["S"]):
                        # documentation: smallest N with S*N >= T; with POST_PREAMBLE the crossing only has T-P trials.
                        # The library counts from the crossing's own preamble - both are defensible readings
                        self.amb("post-preamble-replication")
                    if mode == "equal" and i["w"] != 1:
                        raise Unsupported("equal mode with unequal sizes (constructor must refuse)")
                C["crossings"].append(i)
        C["checks"] = [(c, [(0, C["T"])]) for c in cons if c["kind"] != "min"]
        in_all = set(self.order)
        for i in infos:
            in_all &= set(i["factors"])
        if not infos:
            in_all = set()
        in_some = set()
        for i in infos:
            in_some |= set(i["factors"])
        for n in C["design"]:
            if n in self.basic and n not in in_all and any(l[1] > 1 for l in self.basic[n]["levels"]):
                C["mult"].append(n)
                if n in in_some:
                    self.amb("weighted-partially-crossed")
        self.note_constraint_ambiguities(C, cons)
        return C

    def note_constraint_ambiguities(self, C, cons):
        for c in cons:
            k = c["kind"]
            f = c.get("factor")
            if k in ("atmost", "atleast", "exactly_row") and f in self.derived and self.win[f][1] > 1:
                self.amb("row-on-stride")
            if k in ("atmost", "atleast", "exactly_row", "exactly_k") and f in self.derived and self.is_complex(f):
                # runs/counts over trials where the factor has no level: documented on "trials"; fine for stride 1
                pass
            if k in ("sequential", "latin"):
                for g in ([f] if k == "sequential" else c["factors"]):
                    if any(w > 1 for w in self.level_weight[g].values()):
                        # refused for crossed factors; for uncrossed ones the library orders the hidden copies
                        self.amb("weights-in-order-constraint")
            if k == "sequential":
                if any(f in i["factors"] and i["start"] > 0 for i in C["crossings"]):
                    self.amb("sequential-with-preamble")
                if f in self.derived:
                    self.amb("sequential-on-derived")
            if k == "latin":
                if len(c["factors"]) >= 3:
                    self.amb("latin>=3")
                if any(g in self.derived for g in c["factors"]):
                    self.amb("latin-on-derived")
                if any(any(g in i["factors"] and i["start"] > 0 for i in C["crossings"]) for g in c["factors"]):
                    self.amb("latin-with-preamble")

    # ------------------------------------------------------------------ validity
    def trial_count(self):
        return self.C["T"]

    @staticmethod
    def runs(xs, level):
        out, n = [], 0
        for x in xs:
            if x == level:
                n += 1
            else:
                if n:
                    out.append(n)
                n = 0
        if n:
            out.append(n)
        return out

    def check_constraint(self, c, seq, lo, hi):
        """constraint c on the window [lo, hi) of seq; returns None or a reason"""
        k = c["kind"]
        n = hi - lo
        if k == "sequential":
            f = c["factor"]
            names = self.level_names[f]
            start = 0
            for i in self.C["crossings"]:
                if f in i["factors"]:
                    start = i["start"]
            for t in range(max(lo, start), hi):
                if seq[f][t] != names[(t - start) % len(names)]:
                    return "sequential(%s) at trial %d" % (f, t)
            return None
        if k == "latin":
            fs = c["factors"]
            if len(fs) == 1:
                return None
            N = max(len(self.level_names[f]) for f in fs)
            start = 0
            for i in self.C["crossings"]:
                if fs[0] in i["factors"]:
                    start = i["start"]
            seg = 0
            t0 = max(lo, start)
            while t0 < hi:
                t1 = min(hi, t0 + N)
                for f in fs:
                    vals = [seq[f][t] for t in range(t0, t1)]
                    L = len(self.level_names[f])
                    if t1 - t0 == N:
                        if set(vals) != set(self.level_names[f]):
                            return "latin: segment %d misses a level of %s" % (seg, f)
                    if L == N and len(set(vals)) != len(vals):
                        return "latin: segment %d repeats a level of %s" % (seg, f)
                if len(fs) == 2:
                    # two factors: segment j pairs level k of the longest factor with level (k + j) of the other
                    main = max(range(2), key=lambda i: (len(self.level_names[fs[i]]), i))
                    other = 1 - main
                    mn, on = self.level_names[fs[main]], self.level_names[fs[other]]
                    for t in range(t0, t1):
                        kidx = mn.index(seq[fs[main]][t])
                        if seq[fs[other]][t] != on[(kidx + seg) % len(on)]:
                            return "latin: diagonal %d broken at trial %d" % (seg, t)
                seg += 1
                t0 = t1
            return None
        f = c["factor"]
        levels = [c["level"]] if c.get("level") is not None else self.level_names[f]
        xs = seq[f][lo:hi]
        for l in levels:
            if k == "exclude":
                if l in xs:
                    return "excluded level %s.%s occurs" % (f, l)
            elif k == "pin":
                i = c["index"]
                if not (-n <= i < n):
                    return "pin index %d out of range for %d trials" % (i, n)
                if xs[i] != l:
                    return "pin(%d, %s.%s) not met" % (i, f, l)
            elif k == "atmost":
                if any(r > c["k"] for r in self.runs(xs, l)):
                    return "more than %d in a row of %s.%s" % (c["k"], f, l)
            elif k == "atleast":
                if any(r < c["k"] for r in self.runs(xs, l)):
                    return "run shorter than %d of %s.%s" % (c["k"], f, l)
            elif k == "exactly_row":
                if any(r != c["k"] for r in self.runs(xs, l)):
                    return "run of %s.%s not exactly %d" % (f, l, c["k"])
            elif k == "exactly_k":
                if xs.count(l) != c["k"]:
                    return "%s.%s occurs %d times, not %d" % (f, l, xs.count(l), c["k"])
        return None

    def check_levels_and_derivations(self, seq):
        C = self.C
        T = C["T"]
        for f in C["design"]:
            if f not in seq:
                return "factor %s missing" % f
            if len(seq[f]) != T:
                return "factor %s has %d entries, expected %d" % (f, len(seq[f]), T)
        for f in C["design"]:
            names = self.level_names[f]
            sus = C["sustain"].get(f, 1)
            for t in range(T):
                if self.applicable_sustained(f, t):
                    if seq[f][t] not in names:
                        return "%s[%d]=%r is not a level" % (f, t, seq[f][t])
                    if f in self.derived:
                        want = self.derive(f, seq, (t // sus) * sus if sus > 1 else t, sus)
                        if seq[f][t] != want:
                            return "%s[%d]=%r but its window selects %r" % (f, t, seq[f][t], want)
                elif seq[f][t] != '':
                    return "%s[%d]=%r but the factor does not apply there" % (f, t, seq[f][t])
        return None

    def applicable_sustained(self, f, t):
        sus = self.C["sustain"].get(f, 1)
        return self.applicable(f, t // sus)

    def check_crossings(self, seq, upto=None):
        """crossing requirement; `upto` = number of trials filled so far (prefix pruning during enumeration).
        A crossing with sustain s reads one combination per group of s trials and requires it constant in the group;
        a crossing with `tile` n restarts its chunks every n trials (inner block of a Nest)."""
        C = self.C
        Tall = C["T"]
        T = Tall if upto is None else upto
        for ci, i in enumerate(C["crossings"]):
            s = i.get("sustain", 1)
            fs = i["factors"]
            if s > 1:
                for t in range(i["start"], T):
                    g0 = i["start"] + ((t - i["start"]) // s) * s
                    if t != g0 and any(seq[f][t] != seq[f][g0] for f in fs):
                        return "crossing %d: %r changes inside a group of %d trials (trial %d)" % (ci, fs, s, t)
            tile = i.get("tile") or (Tall - i["start"])
            base = i["start"]
            while base < T:
                tend = min(Tall, base + tile)
                t0 = base
                while t0 < min(tend, T):
                    t1 = min(tend, t0 + i["chunk"] * s)
                    full = (t1 - t0) == i["chunk"] * s
                    hi = min(t1, T)
                    cnt = Counter(tuple(seq[f][t] for f in fs) for t in range(t0, hi, s))
                    for c, n in cnt.items():
                        if c not in i["poss"]:
                            return "crossing %d: combination %r is not allowed" % (ci, c)
                        if n > i["poss"][c] * i["w"]:
                            return "crossing %d: %r occurs %d times (cap %d)" % (ci, c, n, i["poss"][c] * i["w"])
                    if full and hi == t1:
                        for c, w in i["poss"].items():
                            if cnt.get(c, 0) != w * i["w"]:
                                return "crossing %d: %r occurs %d times, expected %d" % (ci, c, cnt.get(c, 0), w * i["w"])
                    t0 = t1
                base = tend
        return None

    def is_valid(self, seq):
        """(bool, reason).  seq: dict factor name -> list of level names ('' where not applicable)."""
        C = self.C
        if C["unsat"]:
            return False, "design has no valid sequence"
        r = self.check_levels_and_derivations(seq)
        if r:
            return False, r
        r = self.check_crossings(seq)
        if r:
            return False, r
        for c, windows in C["checks"]:
            for lo, hi in windows:
                r = self.check_constraint(c, seq, lo, hi)
                if r:
                    return False, r
        return True, None

    # ------------------------------------------------------------------ enumeration
    def raw_space(self):
        C = self.C
        n = 1
        for f in C["design"]:
            if f in self.basic:
                n *= len(self.level_names[f])
        return n ** C["T"]

    def multiplicity(self, seq):
        m = 1
        for f in self.C["mult"]:
            for v in seq[f]:
                m *= self.level_weight[f][v]
        return m

    def enumerate(self, cap=None, node_cap=2_000_000):
        """Counter {canonical sequence: multiplicity}; None if the search exceeds its budget."""
        C = self.C
        out = Counter()
        if C["unsat"]:
            return out
        T = C["T"]
        basics = [f for f in C["design"] if f in self.basic]
        derived = [f for f in C["design"] if f in self.derived]
        per_trial = list(itertools.product(*[self.level_names[f] for f in basics]))
        excluded = set()
        atmost = []
        for c, windows in C["checks"]:
            if c["kind"] == "exclude":
                excluded.add((c["factor"], c["level"]))
            if c["kind"] == "atmost" and windows == [(0, T)]:
                for l in ([c["level"]] if c.get("level") is not None else self.level_names[c["factor"]]):
                    atmost.append((c["factor"], l, c["k"]))
        seq = {f: [] for f in C["design"]}
        nodes = [0]

        class Budget(Exception):
            pass

        def rec(t):
            nodes[0] += 1
            if nodes[0] > node_cap:
                raise Budget()
            if t == T:
                ok, _ = self.is_valid(seq)
                if ok:
                    out[canon_seq(seq)] += self.multiplicity(seq)
                    if cap is not None and len(out) > cap:
                        raise Budget()
                return
            for vals in per_trial:
                bad = False
                for f, v in zip(basics, vals):
                    if (f, v) in excluded:
                        bad = True
                        break
                if bad:
                    continue
                for f, v in zip(basics, vals):
                    seq[f].append(v)
                ok = True
                nd = 0
                for f in derived:
                    if self.applicable_sustained(f, t):
                        sus = C["sustain"].get(f, 1)
                        v = self.derive(f, seq, (t // sus) * sus if sus > 1 else t, sus)
                        if not isinstance(v, str) or (f, v) in excluded:
                            ok = False
                            seq[f].append(None)
                            nd += 1
                            break
                        seq[f].append(v)
                    else:
                        seq[f].append('')
                    nd += 1
                if ok:
                    for f, l, k in atmost:
                        xs = seq[f]
                        if len(xs) > k and all(x == l for x in xs[-(k + 1):]):
                            ok = False
                            break
                if ok and self.check_crossings(seq, upto=t + 1) is None:
                    rec(t + 1)
                for f in basics:
                    seq[f].pop()
                for f in derived[:nd]:
                    seq[f].pop()
        try:
            rec(0)
        except Budget:
            return None
        return out


def canon_seq(seq):
    return tuple(sorted((k, tuple(v)) for k, v in seq.items()))


def canon_experiment(exp, names=None):
    """canonical form of a library experiment (dict name -> list), values as str"""
    return tuple(sorted((k, tuple('' if x is None else x for x in v)) for k, v in exp.items()
                        if names is None or k in names))
