"""Process discipline shared by every check (DESIGN.md section 2).

* time limits are BaseException based (the library swallows Exception and then tries to download binaries)
* every worker lives in a private scratch directory (the library writes <uuid>.cnf into the cwd)
* library chatter is captured
"""
import contextlib
import io
import os
import shutil
import signal
import sys
import tempfile

REPO = os.environ.get("VERIF_REPO", "/repo")
VERIF = os.path.dirname(os.path.dirname(os.path.abspath(__file__)))
NPROC = int(os.environ.get("VERIF_NPROC", str(min(16, os.cpu_count() or 1))))


class CaseTimeout(BaseException):
    """Raised by the per-case alarm.  Deliberately not an Exception."""


def _on_alarm(signum, frame):
    raise CaseTimeout()


@contextlib.contextmanager
def time_limit(seconds):
    if seconds is None or seconds <= 0:
        yield
        return
    old = signal.signal(signal.SIGALRM, _on_alarm)
    signal.setitimer(signal.ITIMER_REAL, float(seconds))
    try:
        yield
    finally:
        signal.setitimer(signal.ITIMER_REAL, 0)
        signal.signal(signal.SIGALRM, old)


@contextlib.contextmanager
def quiet():
    """Capture stdout/stderr of the library; yields the buffer."""
    buf = io.StringIO()
    with contextlib.redirect_stdout(buf), contextlib.redirect_stderr(buf):
        yield buf


_SCRATCH_ROOT = None


def scratch_root():
    global _SCRATCH_ROOT
    if _SCRATCH_ROOT is None:
        _SCRATCH_ROOT = tempfile.mkdtemp(prefix="vp-scratch-")
    return _SCRATCH_ROOT


def cleanup_scratch():
    global _SCRATCH_ROOT
    if _SCRATCH_ROOT and os.path.isdir(_SCRATCH_ROOT):
        try:
            os.chdir(VERIF)
        except OSError:
            pass
        shutil.rmtree(_SCRATCH_ROOT, ignore_errors=True)
    _SCRATCH_ROOT = None


def enter_private_dir(root=None):
    """chdir into a fresh private directory below the scratch root."""
    d = tempfile.mkdtemp(prefix="w%d-" % os.getpid(), dir=root or scratch_root())
    os.chdir(d)
    return d


def clean_cwd_files():
    """Remove stray solver files the library leaves in the cwd (only inside a scratch dir)."""
    cwd = os.getcwd()
    if "vp-scratch-" not in cwd:
        return
    for fn in os.listdir(cwd):
        p = os.path.join(cwd, fn)
        try:
            if os.path.isdir(p):
                shutil.rmtree(p, ignore_errors=True)
            else:
                os.unlink(p)
        except OSError:
            pass


def seed_library_rngs(n):
    """Pin the library's own randomness (random, numpy.random) from an integer drawn by Hypothesis."""
    import random
    random.seed(n)
    try:
        import numpy
        numpy.random.seed(n % (2 ** 32))
    except Exception:  # numpy is a hard dependency of the library, but stay safe
        pass


def innermost_repo_frame(exc):
    """(file:function) of the innermost traceback frame that lies inside the sweetpea package."""
    import traceback
    best = None
    for fs in traceback.extract_tb(exc.__traceback__):
        if "/sweetpea/" in fs.filename:
            best = "%s:%s" % (fs.filename.split("/sweetpea/")[-1], fs.name)
    return best or "outside-sweetpea"


def exc_bucket(exc):
    return "%s@%s" % (type(exc).__name__, innermost_repo_frame(exc))
