"""Pseudo-Boolean (OPB) reader/evaluator written from the format description.

constraint := term+ relation integer ';'      term := ('+'|'-')integer 'v'<index>      relation := '>=' | '<=' | '='
Comment lines start with '*'.  Returns (constraints, errors); a constraint is (terms [(coef, var)], rel, rhs).
"""
import re

_TOKEN = re.compile(r"\s*(>=|<=|=|;|[+-]?\d+|v\d+|\*[^\n]*)")


def parse(text):
    cons, errors = [], []
    pos = 0
    toks = []
    while pos < len(text):
        m = _TOKEN.match(text, pos)
        if not m:
            if text[pos:].strip() == "":
                break
            errors.append("unexpected text at offset %d: %r" % (pos, text[pos:pos + 20]))
            break
        pos = m.end()
        t = m.group(1)
        if not t.startswith("*"):
            toks.append(t)
    i = 0
    while i < len(toks):
        terms = []
        while i + 1 < len(toks) and re.fullmatch(r"[+-]?\d+", toks[i]) and toks[i + 1].startswith("v"):
            terms.append((int(toks[i]), int(toks[i + 1][1:])))
            i += 2
        if i >= len(toks) or toks[i] not in (">=", "<=", "="):
            errors.append("expected relation at token %d (%r)" % (i, toks[i] if i < len(toks) else None))
            break
        rel = toks[i]
        i += 1
        if i >= len(toks) or not re.fullmatch(r"[+-]?\d+", toks[i]):
            errors.append("expected integer right-hand side at token %d" % i)
            break
        rhs = int(toks[i])
        i += 1
        if i >= len(toks) or toks[i] != ";":
            errors.append("constraint not terminated by ';' at token %d" % i)
            break
        i += 1
        if not terms:
            errors.append("constraint without terms")
        cons.append((terms, rel, rhs))
    return cons, errors


def holds(con, a):
    terms, rel, rhs = con
    v = sum(c * (1 if a[x] else 0) for c, x in terms)
    return v >= rhs if rel == ">=" else (v <= rhs if rel == "<=" else v == rhs)


def satisfied(cons, a):
    return all(holds(c, a) for c in cons)


def variables(cons):
    return {x for terms, _, _ in cons for _, x in terms}
