"""Shared pipeline of the design-level properties (C01-C09, C14-C17, C20, C23-C26 ...).

A property module supplies a `DesignProperty`: generator configuration per tier, a `judge(ctx)` that records
failures on a lazily evaluated context (built block, reference model, exhausted sampler results), a
non-triviality rule and budgets.  This module runs it sharded over 16 processes, handles known-finding
avoidance, discards, time limits and the replay entry point (`check_case`).
"""
import copy
from collections import Counter

from . import build as B
from . import env, known, lib as L, ref as R, runner, spec as S, strategies as G
from .runner import Acc


class Skip(Exception):
    """The case is outside the property's domain (counted under `discarded`, never a violation)."""

    def __init__(self, reason):
        super().__init__(reason)
        self.reason = reason


def lib_seed(spec):
    return int(runner.digest(spec), 16) % (2 ** 31 - 1)


class Ctx:
    def __init__(self, spec, P, tier):
        self.spec = spec
        self.P = P
        self.tier = tier
        self.fails = []
        self.labels = []
        self.nontrivial = False
        self.sample = None
        self._c = {}

    # ---- recording
    def fail(self, bucket, message=""):
        self.fails.append(runner.Failure(bucket, self.spec, message))

    def label(self, *labs):
        self.labels.extend(labs)

    def lim(self, name):
        v = self.P.limits.get(name)
        if isinstance(v, dict):
            return v[self.tier]
        return v

    # ---- lazily built things
    def _memo(self, key, fn):
        if key not in self._c:
            self._c[key] = fn()
        return self._c[key]

    @property
    def built(self):
        def mk():
            try:
                return B.build(self.spec)
            except B.BuildRejected as e:
                raise Skip("constructor-rejected:%s" % type(e.exc).__name__)
        return self._memo("built", mk)

    def fresh_built(self):
        try:
            return B.build(self.spec)
        except B.BuildRejected as e:
            raise Skip("constructor-rejected:%s" % type(e.exc).__name__)

    @property
    def block(self):
        return self.built.block

    @property
    def ref(self):
        def mk():
            try:
                return R.Ref(self.spec)
            except R.Unsupported as e:
                raise Skip("ref-unsupported:%s" % str(e)[:50])
        return self._memo("ref", mk)

    def require_unambiguous(self, allow=()):
        amb = [a for a in self.ref.ambiguous if a not in allow]
        if amb:
            raise Skip("ambiguous:" + amb[0])

    @property
    def T_lib(self):
        def mk():
            with env.quiet():
                return self.block.trials_per_sample()
        return self._memo("T_lib", mk)

    def require_small(self):
        T = self.T_lib
        if T > self.lim("max_T"):
            raise Skip("too-large:T")

    def ref_enum(self):
        """Counter {canonical sequence: multiplicity} or Skip(too-large)"""
        def mk():
            r = self.ref
            if r.trial_count() is not None and r.trial_count() > self.lim("max_T"):
                raise Skip("too-large:T")
            out = r.enumerate(cap=self.lim("max_seqs"), node_cap=self.lim("node_cap") or 400000)
            if out is None:
                raise Skip("too-large:sequences")
            return out
        return self._memo("ref_enum", mk)

    def lib_call(self, what, fn):
        """run a library call; an exception is C08's business, not this property's"""
        try:
            return fn()
        except env.CaseTimeout:
            raise
        except Exception as e:
            raise Skip("lib-exception:%s:%s" % (what, env.exc_bucket(e)))

    def sat_all(self, cap=None):
        """(list of visible experiments, complete?) from projected models of the compiled formula"""
        cap = cap or self.lim("max_models") or 4000
        return self._memo("sat_all", lambda: self.lib_call("sat", lambda: L.exhaust_sat_inprocess(self.block, cap)))

    def synth(self, gen, n, block=None, seed=None):
        blk = block if block is not None else self.block
        res, out = self.lib_call(gen, lambda: L.synth(blk, n, gen, lib_seed(self.spec) if seed is None else seed))
        return [L.visible(e) for e in res], out

    def names(self):
        return [n for n in S.all_factor_names(self.spec)]


def exps_counter(exps):
    return Counter(L.canon(e) for e in exps)


def ref_counter(ref_enum):
    """reference Counter in the same canonical form as exps_counter"""
    return Counter({tuple(sorted((k, tuple(v)) for k, v in c)): m for c, m in ref_enum.items()})


def exp_to_seq(exp):
    return {str(k): ['' if x is None else x for x in v] for k, v in exp.items()}


class DesignProperty:
    """Configuration + driver of one design-level property."""

    def __init__(self, id, judge, rule, cfg_quick, cfg_thorough=None, n_quick=60, n_thorough=1500, limits=None,
                 case_limit=(20, 120), assumptions=(), strategy=None, uses_reference=True):
        self.id = id
        self.judge = judge
        self.rule = rule
        self.cfg = {"quick": cfg_quick, "thorough": cfg_thorough or cfg_quick}
        self.n = {"quick": n_quick, "thorough": n_thorough}
        base = {"max_T": {"quick": 8, "thorough": 10}, "max_seqs": {"quick": 400, "thorough": 3000},
                "max_models": {"quick": 3000, "thorough": 12000}, "node_cap": {"quick": 300000, "thorough": 2000000}}
        base.update(limits or {})
        self.limits = base
        self.case_limit = {"quick": case_limit[0], "thorough": case_limit[1]}
        self.assumptions = list(assumptions)
        self._strategy = strategy
        self.uses_reference = uses_reference

    def strategy(self, tier):
        if self._strategy is not None:
            return self._strategy(self.cfg[tier])
        c = self.cfg[tier]
        if c.get("scenarios", True) and "cross" in c["blocks"]:
            return G.mixed_spec(c)          # half random designs, half constructed feature-interaction scenarios
        return G.design_spec(c)

    # ---- one case
    def run_case(self, spec, tier, acc=None):
        """returns (status, ctx) with status in ok | discarded:<why> | inconclusive"""
        ctx = Ctx(spec, self, tier)
        try:
            with env.time_limit(self.case_limit[tier]):
                self.judge(ctx)
        except env.CaseTimeout:
            return "inconclusive", ctx
        except MemoryError:
            return "inconclusive", ctx          # the worker's address-space limit (runner.MEM_LIMIT_BYTES) was hit
        except Skip as s:
            return "discarded:" + s.reason, ctx
        finally:
            env.clean_cwd_files()
        return "ok", ctx

    def check_case(self, spec):
        if not S.wellformed(spec):
            return []
        status, ctx = self.run_case(copy.deepcopy(spec), "thorough")
        return ctx.fails

    # ---- sharded run
    def _shard(self, arg):
        tier, seed_value, n = arg
        acc = runner.track(Acc())
        avoid = known.avoid_predicates(self.id)

        def body(spec):
            for kid, p in avoid:
                try:
                    hit = p(spec)
                except Exception:
                    hit = False
                if hit:
                    acc.excluded_known[kid] += 1
                    return
            status, ctx = self.run_case(spec, tier)
            if status == "inconclusive":
                acc.inconclusive += 1
                return
            if status.startswith("discarded:"):
                acc.discard(status[10:])
                # failures recorded before the discard still count (e.g. cheap checks before 'too-large')
                for f in ctx.fails:
                    acc.fail(f["bucket"], f["case"], f["message"])
                return
            labs = list(ctx.labels) + S.features(spec)
            acc.case(spec, ctx.nontrivial, labs, sample=ctx.sample)
            for f in ctx.fails:
                acc.fail(f["bucket"], f["case"], f["message"])
        runner.drive(self.strategy(tier), body, n, seed_value)
        if G.GEN_ERRORS:
            acc.extra["generator_errors_rejected"] = sum(G.GEN_ERRORS.values())
            for k, v in G.GEN_ERRORS.items():
                acc.classes["generator-error:" + k] += v
        return acc

    def run(self, tier, seed):
        if self.uses_reference:
            from . import fixtures
            errs = fixtures.selftest()
            if errs:
                raise RuntimeError("reference self-test failed (harness error, not a violation): " + "; ".join(errs[:3]))
        acc = runner.run_jobs(_shard_entry, [(self.id, tier, runner.shard_seed(seed, i), self.n[tier]) for i in range(16)],
                              hard_case_s=2.5 * self.case_limit[tier] + 20)
        acc.extra["generator_config"] = {k: (list(v) if isinstance(v, tuple) else v) for k, v in self.cfg[tier].items()}
        return acc

    def export(self, g):
        """install the module-level names the cli expects"""
        g["ID"] = self.id
        g["LEVEL"] = "exploration"
        g["RULE"] = self.rule
        g["ASSUMPTIONS"] = self.assumptions
        g["CASE_LIMIT_S"] = self.case_limit["thorough"]
        g["run"] = self.run
        g["check_case"] = self.check_case


def _shard_entry(arg):
    import importlib
    pid, tier, seed_value, n = arg
    mod = importlib.import_module("vp.props.%s" % pid.lower())
    return mod.P._shard((tier, seed_value, n))
