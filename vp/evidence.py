"""Evidence files: built from the run's accumulator, validated against the schema before writing."""
import json
import os

from . import env

SCHEMA_PATHS = ["/root/.vp/EVIDENCE.schema.json", os.path.join(env.VERIF, "schemas", "EVIDENCE.schema.json")]


def _fallback_validate(ev):
    errs = []
    for k in ("property_id", "tier", "seed", "level", "coverage", "wall_s"):
        if k not in ev:
            errs.append("missing " + k)
    cov = ev.get("coverage", {})
    if ev.get("level") in ("exploration", "fault_enumeration"):
        for k in ("evaluations", "distinct_nontrivial", "rule", "samples"):
            if k not in cov:
                errs.append("coverage missing " + k)
        if cov.get("evaluations", 0) < 1:
            errs.append("evaluations < 1")
        if cov.get("distinct_nontrivial", 0) < 2:
            errs.append("distinct_nontrivial < 2")
        if not cov.get("samples"):
            errs.append("samples empty")
    if ev.get("tier") not in ("quick", "thorough"):
        errs.append("tier")
    if not isinstance(ev.get("seed"), int):
        errs.append("seed")
    return errs


def validate(ev):
    try:
        import jsonschema
        schema = None
        for p in SCHEMA_PATHS:
            if os.path.exists(p):
                schema = json.load(open(p))
                break
        if schema is not None:
            v = jsonschema.Draft202012Validator(schema)
            return [e.message for e in v.iter_errors(ev)]
    except ImportError:
        pass
    return _fallback_validate(ev)


def jsonable(x, depth=0):
    if depth > 12:
        return repr(x)
    if isinstance(x, (str, int, float, bool)) or x is None:
        return x
    if isinstance(x, dict):
        return {str(k): jsonable(v, depth + 1) for k, v in x.items()}
    if isinstance(x, (list, tuple, set, frozenset)):
        return [jsonable(v, depth + 1) for v in x]
    return repr(x)


def build(prop, tier, seed, acc, wall_s, violations, rule, level="exploration", assumptions=(), extra=None):
    cov = {
        "evaluations": int(acc.evaluations),
        "distinct_nontrivial": len(acc.nontrivial),
        "rule": rule,
        "samples": jsonable(acc.samples[:8]),
        "classes": dict(sorted(acc.classes.items())),
        "discarded": dict(sorted(acc.discarded.items())),
        "inconclusive": int(acc.inconclusive),
        "excluded_by_known_finding": dict(sorted(acc.excluded_known.items())),
    }
    for k, v in (acc.extra or {}).items():
        cov.setdefault(k, jsonable(v))
    if extra:
        for k, v in extra.items():
            cov[k] = jsonable(v)
    return {
        "property_id": prop,
        "tier": tier,
        "seed": int(seed),
        "level": level,
        "coverage": cov,
        "assumptions": list(assumptions),
        "wall_s": round(float(wall_s), 3),
        "violations": int(violations),
    }


def write(ev):
    errs = validate(ev)
    path = os.path.join(os.environ.get("VERIF_EVIDENCE_DIR") or os.path.join(env.VERIF, "evidence"), ev["property_id"] + ".json")
    os.makedirs(os.path.dirname(path), exist_ok=True)
    tmp = path + ".tmp"
    with open(tmp, "w") as f:
        json.dump(ev, f, indent=1, sort_keys=False)
        f.write("\n")
    os.replace(tmp, path)
    return path, errs
