"""Shape predicates of the open known findings (root-cause level, see known_findings.json and DESIGN.md section 7).

Two kinds are registered with vp.known.predicate:
  * `<name>`        (case, failure) -> bool : does this failure belong to the finding?  (shape of the case AND kind of failure)
  * `<name>.shape`  (case) -> bool          : shape only; used by generators to keep searching behind the finding.
Cases of the design-level properties are specs (vp/spec.py).
"""
from . import spec as S
from .known import predicate


def _is_spec(case):
    return isinstance(case, dict) and "factors" in case and "derived" in case and "block" in case


def _starts(spec):
    """default and effective start per factor name (documentation: earliest trial where all arguments have a level
    for the trial and the preceding width-1 trials)"""
    start, default = {}, {}
    for f in spec["factors"]:
        start[f["name"]] = 0
        default[f["name"]] = 0
    for d in spec["derived"]:
        w, s, st = S.window_of(d)
        ready = max(start.get(a, 0) for a in d["args"])
        default[d["name"]] = ready + w - 1
        start[d["name"]] = default[d["name"]] if st is None else st
    return start, default


def early_start(spec):
    """some window-derived factor of the design has an explicit start earlier than the default (its predicate sees
    None-padded windows)"""
    if not _is_spec(spec):
        return False
    start, default = _starts(spec)
    used = _used_factors(spec)
    return any(d["name"] in used and start[d["name"]] < default[d["name"]] for d in spec["derived"])


def _used_factors(spec):
    used = set()
    for b in S.iter_blocks(spec["block"]):
        used.update(b.get("design", []))
    return used


def _crossed(spec):
    out = set()
    for b in S.iter_blocks(spec["block"]):
        for c in S.block_crossings(b):
            out.update(c)
    return out


def _weighted_basic(spec):
    return {f["name"] for f in spec["factors"] if any(l[1] > 1 for l in f["levels"])}


def _deps(spec, name, dm=None):
    """transitive basic+derived dependencies of a derived factor"""
    dm = dm or S.derived_by_name(spec)
    out = set()
    todo = [name]
    while todo:
        n = todo.pop()
        if n in dm:
            for a in dm[n]["args"]:
                if a not in out:
                    out.add(a)
                    todo.append(a)
    return out


def hidden_weight_feeds_crossed_derived(spec):
    """a weighted basic factor that is outside some crossing (so the library replaces it by a hidden copy factor) is a
    (transitive) argument of a derived factor inside a crossing"""
    if not _is_spec(spec):
        return False
    dm = S.derived_by_name(spec)
    wb = _weighted_basic(spec)
    if not wb:
        return False
    for b in S.iter_blocks(spec["block"]):
        cs = S.block_crossings(b)
        for c in cs:
            for f in c:
                if f in dm:
                    for a in _deps(spec, f, dm) & wb:
                        if any(a not in c2 for c2 in cs):
                            return True
    return False


def crossed_derived_level_impossible(spec):
    """some combination of a crossing is impossible for a reason other than a directly excluded crossed level: a
    within-trial derived level (crossed, or excluded while depending on crossed factors) that no trial can realise"""
    if not _is_spec(spec):
        return False
    from . import ref as R
    try:
        r = R.Ref(spec)
    except Exception:
        return False
    for b in S.leaf_blocks(spec["block"]):
        for c in S.block_crossings(b):
            if not c:
                continue
            try:
                info = r.crossing_info(c, b["design"], b.get("constraints", []), b["rcc"])
            except Exception:
                continue
            if info["removed_indirect"]:
                return True
    return False


def _bucket(failure):
    return (failure or {}).get("bucket", "")


# ----------------------------------------------------------------------------------------- registered predicates

@predicate("early_start.shape")
def _p1s(case):
    return early_start(case)


@predicate("early_start")
def _p1(case, failure):
    return early_start(case)


@predicate("hidden_weight_feeds_crossed_derived.shape")
def _p2s(case):
    return hidden_weight_feeds_crossed_derived(case)


@predicate("hidden_weight_feeds_crossed_derived.random")
def _p2(case, failure):
    b = _bucket(failure)
    return hidden_weight_feeds_crossed_derived(case) and ("RandomGen" in b or "random" in b)


@predicate("crossed_derived_level_impossible.shape")
def _p3s(case):
    return crossed_derived_level_impossible(case)


@predicate("crossed_derived_level_impossible")
def _p3(case, failure):
    return crossed_derived_level_impossible(case)


def run_length_on_stride(spec):
    """a run-length constraint targets a derived factor whose stride is > 1"""
    if not _is_spec(spec):
        return False
    dm = S.derived_by_name(spec)
    for c in S.all_constraints(spec["block"]):
        if c.get("kind") in ("atmost", "atleast", "exactly_row") and c.get("factor") in dm and S.window_of(dm[c["factor"]])[1] > 1:
            return True
    return False


@predicate("run_length_on_stride.shape")
def _p4s(case):
    return run_length_on_stride(case)


@predicate("run_length_on_stride")
def _p4(case, failure):
    return run_length_on_stride(case) and _bucket(failure).startswith("solution-space")


def leftover_round_with_unequal_source_counts(spec):
    """a crossing ends in a partial (leftover) round AND contains a within-trial derived factor that depends on a basic
    factor outside that crossing (so crossing combinations have different numbers of completions)"""
    if not _is_spec(spec):
        return False
    from . import ref as R
    try:
        r = R.Ref(spec)
    except Exception:
        return False
    if r.C.get("T") is None:
        return False
    dm = S.derived_by_name(spec)
    for info in r.C["crossings"]:
        if (r.C["T"] - info["start"]) % info["chunk"] == 0:
            continue
        for f in info["factors"]:
            if f in dm and not r.is_complex(f):
                deps = r.basic_deps(f)
                if deps is not None and not deps <= set(info["factors"]):
                    return True
    return False


@predicate("leftover_round_with_unequal_source_counts.shape")
def _p5s(case):
    return leftover_round_with_unequal_source_counts(case)


@predicate("leftover_round_with_unequal_source_counts.nonuniform")
def _p5(case, failure):
    return leftover_round_with_unequal_source_counts(case) and _bucket(failure) == "nonuniform"


def impossible_through_nested_derivation(spec):
    """a crossing contains a within-trial derived factor that has a derived argument, and some crossing combination is
    impossible (the library judges impossibility one derivation level deep)"""
    if not _is_spec(spec) or not crossed_derived_level_impossible(spec):
        return False
    dm = S.derived_by_name(spec)
    for b in S.leaf_blocks(spec["block"]):
        for c in S.block_crossings(b):
            for f in c:
                if f in dm and any(a in dm for a in dm[f]["args"]):
                    return True
    return False


@predicate("impossible_through_nested_derivation.shape")
def _p6s(case):
    return impossible_through_nested_derivation(case)


@predicate("impossible_through_nested_derivation.trial_count")
def _p6(case, failure):
    return impossible_through_nested_derivation(case) and _bucket(failure).startswith("trial-count")
