"""Strict DIMACS reader written from the format description (plus the `c ind ... 0` sampling-set convention).

Returns a dict; every deviation from the format is listed in 'errors' instead of being tolerated silently.
"""


def parse(text):
    out = {"nvars": None, "nclauses": None, "clauses": [], "ind_lines": [], "ind": [], "errors": [], "comments": 0}
    seen_header = False
    cur = []
    for lineno, raw in enumerate(text.split("\n"), 1):
        line = raw.strip()
        if not line:
            continue
        if line.startswith("p"):
            parts = line.split()
            if seen_header:
                out["errors"].append("line %d: second problem line" % lineno)
                continue
            if len(parts) != 4 or parts[0] != "p" or parts[1] != "cnf":
                out["errors"].append("line %d: malformed problem line %r" % (lineno, line))
                continue
            try:
                out["nvars"], out["nclauses"] = int(parts[2]), int(parts[3])
            except ValueError:
                out["errors"].append("line %d: non-integer counts in %r" % (lineno, line))
            seen_header = True
            continue
        if line.startswith("c"):
            parts = line.split()
            if len(parts) >= 2 and parts[0] == "c" and parts[1] == "ind":
                try:
                    nums = [int(x) for x in parts[2:]]
                except ValueError:
                    out["errors"].append("line %d: non-integer in c ind line" % lineno)
                    continue
                if not nums or nums[-1] != 0:
                    out["errors"].append("line %d: c ind line not terminated by 0" % lineno)
                    body = nums
                else:
                    body = nums[:-1]
                if 0 in body:
                    out["errors"].append("line %d: 0 inside c ind line" % lineno)
                if any(v < 0 for v in body):
                    out["errors"].append("line %d: negative entry in c ind line" % lineno)
                out["ind_lines"].append(body)
                out["ind"].extend(body)
            else:
                out["comments"] += 1
            continue
        if not seen_header:
            out["errors"].append("line %d: clause before problem line" % lineno)
        try:
            nums = [int(x) for x in line.split()]
        except ValueError:
            out["errors"].append("line %d: non-integer token in %r" % (lineno, line))
            continue
        for n in nums:
            if n == 0:
                out["clauses"].append(cur)
                cur = []
            else:
                cur.append(n)
    if cur:
        out["errors"].append("last clause not terminated by 0")
        out["clauses"].append(cur)
    if not seen_header:
        out["errors"].append("no problem line")
    return out


def max_var(parsed):
    m = 0
    for c in parsed["clauses"]:
        for l in c:
            m = max(m, abs(l))
    for v in parsed["ind"]:
        m = max(m, abs(v))
    return m


def canon_clauses(clauses):
    return sorted(tuple(c) for c in clauses)
