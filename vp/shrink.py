"""Structural delta-debugging of a JSON case.

`still_fails(case) -> bool` must be total (an invalid candidate simply does not fail).  Greedy passes
until a fixpoint or the time budget: delete list elements / dict entries marked optional, move
integers towards 0/1, replace nested values by simpler siblings.  Deterministic.
"""
import copy
import time


def _paths(obj, prefix=()):
    yield prefix, obj
    if isinstance(obj, list):
        for i, v in enumerate(obj):
            yield from _paths(v, prefix + (i,))
    elif isinstance(obj, dict):
        for k in sorted(obj, key=str):
            yield from _paths(obj[k], prefix + (k,))


def _get(obj, path):
    for p in path:
        obj = obj[p]
    return obj


def _set(obj, path, value):
    obj = copy.deepcopy(obj)
    if not path:
        return value
    cur = obj
    for p in path[:-1]:
        cur = cur[p]
    cur[path[-1]] = value
    return obj


def _delete(obj, path):
    obj = copy.deepcopy(obj)
    cur = obj
    for p in path[:-1]:
        cur = cur[p]
    del cur[path[-1]]
    return obj


def _size(obj):
    import json
    return len(json.dumps(obj, default=str))


def shrink(case, still_fails, budget_s=60.0, max_checks=4000):
    t0 = time.time()
    checks = 0
    best = copy.deepcopy(case)

    def ok(cand):
        nonlocal checks
        checks += 1
        try:
            return bool(still_fails(cand))
        except Exception:
            return False

    improved = True
    while improved and time.time() - t0 < budget_s and checks < max_checks:
        improved = False
        # 1. delete list elements (largest structures first)
        paths = [(p, v) for p, v in _paths(best)]
        for p, v in paths:
            if time.time() - t0 > budget_s or checks >= max_checks:
                break
            if isinstance(v, list) and len(v) > 0:
                for i in reversed(range(len(v))):
                    try:
                        cur = _get(best, p)
                    except (KeyError, IndexError, TypeError):
                        break
                    if not isinstance(cur, list) or i >= len(cur):
                        continue
                    cand = _delete(best, p + (i,))
                    if ok(cand):
                        best = cand
                        improved = True
        # 2. shrink integers, booleans, None-able values
        for p, v in [(p, v) for p, v in _paths(best)]:
            if time.time() - t0 > budget_s or checks >= max_checks:
                break
            try:
                v = _get(best, p)
            except (KeyError, IndexError, TypeError):
                continue
            cands = []
            if isinstance(v, bool):
                if v:
                    cands = [False]
            elif isinstance(v, int):
                if v > 1:
                    cands = [1, v // 2, v - 1]
                elif v < 0:
                    cands = [0, -((-v) // 2), v + 1]
                elif v == 1:
                    cands = [0]
            elif isinstance(v, dict) and p and "shrink_to" in v:
                cands = [v["shrink_to"]]
            seen = set()
            for c in cands:
                if c == v or repr(c) in seen:
                    continue
                seen.add(repr(c))
                cand = _set(best, p, c)
                if ok(cand):
                    best = cand
                    improved = True
                    break
        # 3. optional dict keys
        for p, v in [(p, v) for p, v in _paths(best)]:
            if time.time() - t0 > budget_s or checks >= max_checks:
                break
            try:
                v = _get(best, p)
            except (KeyError, IndexError, TypeError):
                continue
            if isinstance(v, dict):
                for k in list(v):
                    if isinstance(k, str) and k.startswith("opt_"):
                        cand = _delete(best, p + (k,))
                        if ok(cand):
                            best = cand
                            improved = True
    return best, checks
