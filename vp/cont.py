"""Continuous-factor specs (C19, C22): plain data -> sweetpea ContinuousFactor objects, plus the independent recomputation
of derived continuous values from a RETURNED sequence (documented window rule: every entry NaN when t < start or the
trial is skipped by the stride; an individual entry NaN when its trial index is negative).

cspec = {"name": str, "kind": "uniform"|"gauss"|"exp"|"lognorm"|"free"|"derived", "params": [..],
         "deps": [{"c": cname} | {"d": discrete factor name} | {"w": {"factors": [cnames], "width": w, "stride": s, "start": st|None}}],
         "fn": one of FUNCS, "cumulative": bool}
ccon  = {"factors": [cnames], "op": "lt"|"gt"|"sumlt", "thr": float}
"""
import math

from hypothesis import strategies as st

NAN = float("nan")


def _flat(args, level_index):
    out = []
    for a in args:
        if isinstance(a, dict):
            out.extend(a[k] for k in sorted(a, reverse=True))          # 0, -1, -2, ...
        elif isinstance(a, list):
            for d in a:
                out.extend(d[k] for k in sorted(d, reverse=True))
        elif isinstance(a, (int, float)):
            out.append(float(a))
        else:
            out.append(float(level_index.get(a, -1)))
    return out


def f_sum(vals):
    return float(sum(v for v in vals if not math.isnan(v)))


def f_diff(vals):
    xs = [0.0 if math.isnan(v) else v for v in vals]
    return float(xs[0] - xs[-1]) if xs else 0.0


def f_mean(vals):
    xs = [v for v in vals if not math.isnan(v)]
    return float(sum(xs) / len(xs)) if xs else -1.0


def f_nanmask(vals):
    """which positions are NaN, as a number: exposes exactly where the library puts NaN"""
    return float(sum(2 ** i for i, v in enumerate(vals) if math.isnan(v)))


def f_wsum(vals):
    """position-weighted sum: exposes which trial each entry came from"""
    return float(sum((i + 1) * (0.0 if math.isnan(v) else v) for i, v in enumerate(vals)))


FUNCS = {"sum": f_sum, "diff": f_diff, "mean": f_mean, "nanmask": f_nanmask, "wsum": f_wsum}


def make_callable(cs, level_index):
    n = len(cs["deps"])
    fn = FUNCS[cs["fn"]]

    def call(*args):
        if len(args) != n:
            raise TypeError("catalogue function expected %d inputs, got %d" % (n, len(args)))
        return fn(_flat(list(args), level_index))
    return call


def build(cspecs, ccons, discrete_factors, level_index):
    """returns (list of ContinuousFactor, list of ContinuousConstraint); discrete_factors: name -> Factor object"""
    import random
    import sweetpea as sp
    made = {}
    out = []
    for cs in cspecs:
        k = cs["kind"]
        p = cs.get("params", [])
        if k == "uniform":
            dist = sp.UniformDistribution(p[0], p[1])
        elif k == "gauss":
            dist = sp.GaussianDistribution(p[0], p[1])
        elif k == "exp":
            dist = sp.ExponentialDistribution(p[0])
        elif k == "lognorm":
            dist = sp.LogNormalDistribution(p[0], p[1])
        elif k == "free":
            dist = sp.CustomDistribution(lambda: random.random())
        else:
            deps = []
            for d in cs["deps"]:
                if "c" in d:
                    deps.append(made[d["c"]])
                elif "d" in d:
                    deps.append(discrete_factors[d["d"]])
                else:
                    w = d["w"]
                    deps.append(sp.ContinuousFactorWindow([made[n] for n in w["factors"]], w["width"], w["stride"], w.get("start")))
            dist = sp.CustomDistribution(make_callable(cs, level_index), deps, cumulative=bool(cs.get("cumulative")))
        f = sp.ContinuousFactor(cs["name"], distribution=dist)
        made[cs["name"]] = f
        out.append(f)
    cons = []

    def predicate(cc):
        # the library checks that the predicate takes exactly as many parameters as there are factors
        thr, op = cc["thr"], cc["op"]
        if op == "lt":
            return lambda a: a < thr
        if op == "gt":
            return lambda a: a > thr
        if op == "gtpair":
            return lambda a, b: a > b - thr          # NOT symmetric in its arguments
        return lambda a, b: a + b < thr
    # documented as sweetpea.ContinuousConstraint but not exported from the package at the pinned commit
    CC = getattr(sp, "ContinuousConstraint", None)
    if CC is None:
        from sweetpea._internal.constraint import ContinuousConstraint as CC
    for cc in ccons:
        cons.append(CC([made[n] for n in cc["factors"]], predicate(cc)))
    return out, cons


def holds(cc, vals):
    if cc["op"] == "lt":
        return vals[0] < cc["thr"]
    if cc["op"] == "gt":
        return vals[0] > cc["thr"]
    if cc["op"] == "gtpair":
        return vals[0] > vals[1] - cc["thr"]
    return vals[0] + vals[1] < cc["thr"]


def window_value(w, cols, t):
    """documented value of a ContinuousFactorWindow at trial t (one dict per factor)"""
    width, stride = w["width"], w["stride"]
    start = w.get("start")
    if start is None:
        start = width - 1
    per = []
    for name in w["factors"]:
        d = {}
        inactive = t < start or (t - start) % stride != 0
        for k in range(width):
            if inactive or t - k < 0:
                d[-k] = NAN
            else:
                d[-k] = cols[name][t - k]
        per.append(d)
    return per[0] if len(per) == 1 else per


def expected_column(cs, cols, T, level_index):
    """recompute a derived continuous column from the returned columns"""
    fn = FUNCS[cs["fn"]]
    out = []
    run = 0.0
    for t in range(T):
        args = []
        for d in cs["deps"]:
            if "c" in d:
                args.append(cols[d["c"]][t])
            elif "d" in d:
                args.append(cols[d["d"]][t])
            else:
                args.append(window_value(d["w"], cols, t))
        v = fn(_flat(args, level_index))
        if cs.get("cumulative"):
            run += v
            v = run
        out.append(v)
    return out


def same(a, b, tol=1e-9):
    if isinstance(a, float) and isinstance(b, float) and math.isnan(a) and math.isnan(b):
        return True
    try:
        return abs(a - b) <= tol * max(1.0, abs(a), abs(b))
    except TypeError:
        return False


@st.composite
def continuous_specs(draw, discrete_names, max_n=3):
    n = draw(st.integers(1, max_n))
    specs = []
    for i in range(n):
        name = "c%d" % i
        prev = [s["name"] for s in specs]
        kinds = ["uniform", "uniform", "uniform", "gauss", "exp", "lognorm", "free"] + (["derived"] * 4 if (prev or discrete_names) else [])
        k = draw(st.sampled_from(kinds))
        cs = {"name": name, "kind": k, "params": [], "deps": [], "fn": "sum", "cumulative": False}
        if k == "uniform":
            lo = draw(st.integers(-3, 3))
            cs["params"] = [float(lo), float(lo + draw(st.integers(1, 4)))]
        elif k == "gauss":
            cs["params"] = [float(draw(st.integers(-2, 2))), float(draw(st.sampled_from([0.5, 1.0, 2.0])))]
        elif k == "exp":
            cs["params"] = [float(draw(st.sampled_from([0.5, 1.0, 3.0])))]
        elif k == "lognorm":
            cs["params"] = [0.0, float(draw(st.sampled_from([0.25, 0.5])))]
        elif k == "derived":
            nd = draw(st.integers(1, 2))
            for _ in range(nd):
                opts = []
                if prev:
                    opts += ["c", "w", "w"]
                if discrete_names:
                    opts += ["d"]
                o = draw(st.sampled_from(opts))
                if o == "c":
                    cs["deps"].append({"c": draw(st.sampled_from(prev))})
                elif o == "d":
                    cs["deps"].append({"d": draw(st.sampled_from(discrete_names))})
                else:
                    fs = draw(st.lists(st.sampled_from(prev), min_size=1, max_size=min(2, len(prev)), unique=True))
                    cs["deps"].append({"w": {"factors": fs, "width": draw(st.integers(1, 3)), "stride": draw(st.integers(1, 3)),
                                             "start": draw(st.sampled_from([None, None, 0, 1, 2, 3]))}})
            cs["fn"] = draw(st.sampled_from(sorted(FUNCS)))
            cs["cumulative"] = draw(st.integers(0, 3)) == 0
        specs.append(cs)
    cons = []
    for s in specs:
        if s["kind"] == "uniform" and draw(st.integers(0, 2)) == 0:
            lo, hi = s["params"]
            cons.append({"factors": [s["name"]], "op": draw(st.sampled_from(["lt", "gt"])), "thr": 0.0})
            cons[-1]["thr"] = lo + 0.93 * (hi - lo) if cons[-1]["op"] == "lt" else lo + 0.07 * (hi - lo)
    us = [s for s in specs if s["kind"] == "uniform"]
    if len(us) >= 2 and draw(st.integers(0, 2)) == 0:
        cons.append({"factors": [us[0]["name"], us[1]["name"]], "op": "sumlt", "thr": us[0]["params"][1] + us[1]["params"][1] - 0.05})
    if len(us) >= 2 and draw(st.integers(0, 1)) == 0:
        a, b = (us[0], us[1]) if draw(st.booleans()) else (us[1], us[0])       # either order relative to the design
        # a > b - thr holds with probability >= 0.9 per trial: thr = (b.high - a.low) - 10% of the spread
        spread = (b["params"][1] - a["params"][0])
        cons.append({"factors": [a["name"], b["name"]], "op": "gtpair", "thr": spread - 0.1 * min(a["params"][1] - a["params"][0], b["params"][1] - b["params"][0])})
    return specs, cons
