"""Accumulators, sharded execution and the Hypothesis driver used by all property modules."""
import hashlib
import json
import multiprocessing as mp
import os
import pickle
import signal
import time
import traceback
from collections import Counter

from . import env


def canon(obj):
    return json.dumps(obj, sort_keys=True, separators=(",", ":"), default=str)


def digest(obj):
    return hashlib.blake2b(canon(obj).encode(), digest_size=8).hexdigest()


class Failure(dict):
    """{'bucket': str, 'case': json-able, 'message': str, 'kind': str}"""

    def __init__(self, bucket, case, message="", kind=None):
        super().__init__(bucket=bucket, case=case, message=str(message)[:2000], kind=kind or bucket.split(":")[0])


class Acc:
    """What one shard (or the whole run) covered.  Mergeable and picklable."""

    MAX_SAMPLES = 8
    MAX_FAIL_PER_BUCKET = 25

    def __init__(self):
        self.evaluations = 0
        self.nontrivial = set()
        self.classes = Counter()
        self.discarded = Counter()
        self.inconclusive = 0
        self.excluded_known = Counter()
        self.samples = []
        self.failures = []
        self._per_bucket = Counter()
        self.extra = {}
        self.harness_errors = []

    # ---- recording
    def case(self, case, nontrivial, labels=(), sample=None):
        self.evaluations += 1
        if nontrivial:
            h = digest(case)
            if h not in self.nontrivial:
                self.nontrivial.add(h)
                if len(self.samples) < self.MAX_SAMPLES:
                    self.samples.append(sample if sample is not None else case)
        for lab in labels:
            self.classes[lab] += 1

    def label(self, *labels):
        for lab in labels:
            self.classes[lab] += 1

    def discard(self, why):
        self.discarded[why] += 1

    def fail(self, bucket, case, message="", kind=None):
        self._per_bucket[bucket] += 1
        if self._per_bucket[bucket] <= self.MAX_FAIL_PER_BUCKET:
            self.failures.append(Failure(bucket, case, message, kind))

    def merge(self, other):
        self.evaluations += other.evaluations
        self.nontrivial |= other.nontrivial
        self.classes.update(other.classes)
        self.discarded.update(other.discarded)
        self.excluded_known.update(other.excluded_known)
        self.inconclusive += other.inconclusive
        for s in other.samples:
            if len(self.samples) < self.MAX_SAMPLES:
                self.samples.append(s)
        self.failures.extend(other.failures)
        self._per_bucket.update(other._per_bucket)
        self.harness_errors.extend(other.harness_errors)
        for k, v in other.extra.items():
            if isinstance(v, (int, float)) and isinstance(self.extra.get(k, 0), (int, float)):
                self.extra[k] = self.extra.get(k, 0) + v
            else:
                self.extra.setdefault(k, v)
        return self


# ------------------------------------------------------------------ sharded execution

# A worker is a forked child running ONE job.  The parent watches it: the child reports which generated case it is working
# on (progress file) and periodically flushes its accumulator (partial file).  A case that runs past the hard limit - a C
# extension that ignores the per-case alarm, runaway memory - gets the child killed; the job is restarted from the last
# flush with that case index poisoned (counted inconclusive, label killed-by-watchdog).  A child that dies by itself
# (abort inside a solver) is handled the same way.  Nothing is ever silently lost and a runaway case cannot hang a check.

_TRACK = {"acc": None, "progress": None, "partial": None, "resume_from": 0, "poison": (), "index": 0, "last_flush": 0.0}
MAX_RESTARTS = int(os.environ.get("VERIF_MAX_RESTARTS", "25"))
MEM_LIMIT_BYTES = int(os.environ.get("VERIF_WORKER_MEM_GB", "10")) * (1 << 30)


def track(acc):
    """called by a job function: makes its accumulator visible to the watchdog machinery (enables resume)"""
    _TRACK["acc"] = acc
    return acc


def _progress(idx, running):
    fd = _TRACK["progress"]
    if fd is not None:
        try:
            os.pwrite(fd, ("%d %d %.3f\n" % (idx, 1 if running else 0, time.time())).ljust(48).encode(), 0)
        except OSError:
            pass


def _flush_partial(next_index, force=False):
    path = _TRACK["partial"]
    acc = _TRACK["acc"]
    if path is None or acc is None:
        return
    now = time.time()
    if not force and now - _TRACK["last_flush"] < 0.5:
        return
    _TRACK["last_flush"] = now
    tmp = path + ".tmp"
    with open(tmp, "wb") as f:
        pickle.dump((acc, next_index), f)
    os.replace(tmp, path)


def guarded_body(body):
    """wraps a per-case body with progress reporting, resume and poison handling"""
    def wrapped(case):
        idx = _TRACK["index"]
        _TRACK["index"] = idx + 1
        if idx < _TRACK["resume_from"]:
            return
        if idx in _TRACK["poison"]:
            acc = _TRACK["acc"]
            if acc is not None:
                acc.inconclusive += 1
                acc.label("killed-by-watchdog")
            return
        _progress(idx, True)
        try:
            body(case)
        finally:
            _progress(idx, False)
            _flush_partial(idx + 1)
    return wrapped


def _budget_exception(e):
    """a per-case alarm or the address-space limit (possibly wrapped in an exception group by Hypothesis)"""
    if isinstance(e, (env.CaseTimeout, MemoryError)):
        return True
    subs = getattr(e, "exceptions", None)
    return bool(subs) and all(_budget_exception(x) for x in subs)


def _child_main(fn, arg, job_dir, root, resume_from, poison):
    status = 0
    try:
        try:
            import resource
            resource.setrlimit(resource.RLIMIT_AS, (MEM_LIMIT_BYTES, MEM_LIMIT_BYTES))
        except Exception:
            pass
        env.enter_private_dir(root)
        _TRACK.update(acc=None, progress=os.open(os.path.join(job_dir, "progress"), os.O_RDWR | os.O_CREAT, 0o600),
                      partial=os.path.join(job_dir, "partial"), resume_from=resume_from, poison=tuple(poison), index=0,
                      last_flush=time.time())
        try:
            acc = fn(arg)
        except BaseException as e:
            if _budget_exception(e):
                # a per-case alarm that fired outside the guarded region (late delivery inside the generator) or the
                # address-space limit: neither says anything about the property.  Leave without a result: the parent
                # merges the last flush, poisons the case that was being worked on and restarts the shard.
                os._exit(4)
            acc = Acc()                 # a harness error must not be silently lost
            acc.harness_errors.append("%s: %s\n%s" % (type(e).__name__, e, traceback.format_exc()[-1500:]))
        tmp = os.path.join(job_dir, "result.tmp")
        with open(tmp, "wb") as f:
            pickle.dump(acc, f)
        os.replace(tmp, os.path.join(job_dir, "result"))
    except BaseException:
        status = 3
    finally:
        os._exit(status)


def _read_progress(job_dir):
    try:
        with open(os.path.join(job_dir, "progress"), "rb") as f:
            parts = f.read(48).split()
        return int(parts[0]), int(parts[1]) == 1, float(parts[2])
    except (OSError, ValueError, IndexError):
        return None


def run_jobs(fn, args, nproc=None, hard_case_s=None):
    """Run fn(arg) -> Acc for every arg, each in its own watched child process; merged Acc."""
    nproc = nproc or env.NPROC
    hard_case_s = float(os.environ.get("VERIF_HARD_CASE_S", hard_case_s or 300))
    total = Acc()
    args = list(args)
    # import the library under test BEFORE forking and before any per-case alarm: an alarm that fires in the middle
    # of an import leaves half-initialised modules behind
    try:
        with env.quiet():
            import sweetpea  # noqa: F401
            import sweetpea._internal.server  # noqa: F401
    except Exception:
        pass
    if not args:
        return total
    root = env.scratch_root()
    jobs = []
    for i, a in enumerate(args):
        d = os.path.join(root, "job%d" % i)
        os.makedirs(d, exist_ok=True)
        jobs.append({"arg": a, "dir": d, "resume_from": 0, "poison": [], "acc": Acc(), "restarts": 0})
    pending = list(range(len(jobs)))
    running = {}

    def start(ji):
        job = jobs[ji]
        for fn_ in ("progress", "partial", "result"):
            try:
                os.unlink(os.path.join(job["dir"], fn_))
            except OSError:
                pass
        pid = os.fork()
        if pid == 0:
            _child_main(fn, job["arg"], job["dir"], root, job["resume_from"], job["poison"])
        running[pid] = ji

    def abnormal(ji, why):
        job = jobs[ji]
        prog = _read_progress(job["dir"])
        partial = None
        try:
            with open(os.path.join(job["dir"], "partial"), "rb") as f:
                partial = pickle.load(f)
        except Exception:
            partial = None
        if prog is None:
            total.harness_errors.append("worker for job %d %s before reporting progress" % (ji, why))
            return
        idx, _running, _t = prog
        if partial is not None:
            job["acc"].merge(partial[0])
            job["resume_from"] = max(job["resume_from"], partial[1])
        job["poison"].append(idx)
        job["restarts"] += 1
        total.classes["watchdog:" + why] += 1
        if job["restarts"] > MAX_RESTARTS:
            # a budget problem (overloaded machine, pathological shard), not a verdict and not a harness fault: the rest of
            # the shard is given up, visibly (class shard-abandoned, one inconclusive) - what was evaluated still counts
            total.classes["shard-abandoned"] += 1
            total.inconclusive += 1
            total.merge(job["acc"])
            return
        pending.append(ji)

    while pending or running:
        while pending and len(running) < nproc:
            start(pending.pop(0))
        time.sleep(0.05 if len(args) <= nproc else 0.2)
        now = time.time()
        for pid, ji in list(running.items()):
            try:
                done, status = os.waitpid(pid, os.WNOHANG)
            except ChildProcessError:
                done, status = pid, 0
            job = jobs[ji]
            if done:
                del running[pid]
                rp = os.path.join(job["dir"], "result")
                if os.path.exists(rp):
                    try:
                        with open(rp, "rb") as f:
                            total.merge(pickle.load(f))
                        total.merge(job["acc"])
                    except Exception as e:
                        total.harness_errors.append("job %d: unreadable result (%s)" % (ji, e))
                else:
                    abnormal(ji, "died(status=%s)" % status)
                continue
            prog = _read_progress(job["dir"])
            if prog and prog[1] and now - prog[2] > hard_case_s:
                try:
                    os.kill(pid, signal.SIGKILL)
                    os.waitpid(pid, 0)
                except (OSError, ChildProcessError):
                    pass
                del running[pid]
                abnormal(ji, "killed-after-%ds" % int(hard_case_s))
    return total


# ------------------------------------------------------------------ hypothesis driver

def shard_seed(seed, shard):
    return int(seed) * 1000003 + int(shard)


def drive(strategy, body, n_examples, seed_value):
    """Run body(case) on n_examples cases drawn from strategy.  body must record, not raise."""
    import hypothesis
    from hypothesis import HealthCheck, Phase, given, settings

    gb = guarded_body(body)

    @hypothesis.seed(seed_value)
    @settings(max_examples=n_examples, database=None, deadline=None, derandomize=False,
              report_multiple_bugs=False, suppress_health_check=list(HealthCheck),
              phases=[Phase.generate], print_blob=False)
    @given(strategy)
    def _t(case):
        gb(case)

    _t()
    _flush_partial(_TRACK["index"], force=True)


def drive_machine(machine_cls, n_examples, steps, seed_value):
    import hypothesis
    from hypothesis import HealthCheck, Phase, settings
    from hypothesis.stateful import run_state_machine_as_test
    run_state_machine_as_test(
        hypothesis.seed(seed_value)(machine_cls),
        settings=settings(max_examples=n_examples, stateful_step_count=steps, database=None, deadline=None,
                          derandomize=False, report_multiple_bugs=False,
                          suppress_health_check=list(HealthCheck), phases=[Phase.generate], print_blob=False))


class Stopwatch:
    def __init__(self):
        self.t0 = time.time()

    def elapsed(self):
        return time.time() - self.t0
