"""Accumulators, sharded execution and the Hypothesis driver used by all property modules."""
import hashlib
import json
import multiprocessing as mp
import os
import time
import traceback
from collections import Counter

from . import env


def canon(obj):
    return json.dumps(obj, sort_keys=True, separators=(",", ":"), default=str)


def digest(obj):
    return hashlib.blake2b(canon(obj).encode(), digest_size=8).hexdigest()


class Failure(dict):
    """{'bucket': str, 'case': json-able, 'message': str, 'kind': str}"""

    def __init__(self, bucket, case, message="", kind=None):
        super().__init__(bucket=bucket, case=case, message=str(message)[:2000], kind=kind or bucket.split(":")[0])


class Acc:
    """What one shard (or the whole run) covered.  Mergeable and picklable."""

    MAX_SAMPLES = 8
    MAX_FAIL_PER_BUCKET = 25

    def __init__(self):
        self.evaluations = 0
        self.nontrivial = set()
        self.classes = Counter()
        self.discarded = Counter()
        self.inconclusive = 0
        self.excluded_known = Counter()
        self.samples = []
        self.failures = []
        self._per_bucket = Counter()
        self.extra = {}
        self.harness_errors = []

    # ---- recording
    def case(self, case, nontrivial, labels=(), sample=None):
        self.evaluations += 1
        if nontrivial:
            h = digest(case)
            if h not in self.nontrivial:
                self.nontrivial.add(h)
                if len(self.samples) < self.MAX_SAMPLES:
                    self.samples.append(sample if sample is not None else case)
        for lab in labels:
            self.classes[lab] += 1

    def label(self, *labels):
        for lab in labels:
            self.classes[lab] += 1

    def discard(self, why):
        self.discarded[why] += 1

    def fail(self, bucket, case, message="", kind=None):
        self._per_bucket[bucket] += 1
        if self._per_bucket[bucket] <= self.MAX_FAIL_PER_BUCKET:
            self.failures.append(Failure(bucket, case, message, kind))

    def merge(self, other):
        self.evaluations += other.evaluations
        self.nontrivial |= other.nontrivial
        self.classes.update(other.classes)
        self.discarded.update(other.discarded)
        self.excluded_known.update(other.excluded_known)
        self.inconclusive += other.inconclusive
        for s in other.samples:
            if len(self.samples) < self.MAX_SAMPLES:
                self.samples.append(s)
        self.failures.extend(other.failures)
        self._per_bucket.update(other._per_bucket)
        self.harness_errors.extend(other.harness_errors)
        for k, v in other.extra.items():
            if isinstance(v, (int, float)) and isinstance(self.extra.get(k, 0), (int, float)):
                self.extra[k] = self.extra.get(k, 0) + v
            else:
                self.extra.setdefault(k, v)
        return self


# ------------------------------------------------------------------ sharded execution

def _init_worker(root):
    env.enter_private_dir(root)


def _call(job):
    fn, arg = job
    try:
        return fn(arg)
    except env.CaseTimeout:
        a = Acc()
        a.inconclusive += 1
        return a
    except BaseException as e:  # a harness error must not be silently lost
        a = Acc()
        a.harness_errors.append("%s: %s\n%s" % (type(e).__name__, e, traceback.format_exc()[-1500:]))
        return a


def run_jobs(fn, args, nproc=None):
    """Run fn(arg) -> Acc for every arg in a fork pool; merged Acc."""
    nproc = nproc or env.NPROC
    total = Acc()
    args = list(args)
    # import the library under test BEFORE forking and before any per-case alarm: an alarm that fires in the middle
    # of an import leaves half-initialised modules behind
    try:
        with env.quiet():
            import sweetpea  # noqa: F401
            import sweetpea._internal.server  # noqa: F401
    except Exception:
        pass
    if not args:
        return total
    root = env.scratch_root()
    if nproc <= 1 or len(args) == 1:
        here = os.getcwd()
        env.enter_private_dir(root)
        try:
            for a in args:
                total.merge(_call((fn, a)))
        finally:
            os.chdir(here)
        return total
    ctx = mp.get_context("fork")
    with ctx.Pool(min(nproc, len(args)), initializer=_init_worker, initargs=(root,), maxtasksperchild=None) as pool:
        for acc in pool.imap_unordered(_call, [(fn, a) for a in args]):
            total.merge(acc)
    return total


# ------------------------------------------------------------------ hypothesis driver

def shard_seed(seed, shard):
    return int(seed) * 1000003 + int(shard)


def drive(strategy, body, n_examples, seed_value):
    """Run body(case) on n_examples cases drawn from strategy.  body must record, not raise."""
    import hypothesis
    from hypothesis import HealthCheck, Phase, given, settings

    @hypothesis.seed(seed_value)
    @settings(max_examples=n_examples, database=None, deadline=None, derandomize=False,
              report_multiple_bugs=False, suppress_health_check=list(HealthCheck),
              phases=[Phase.generate], print_blob=False)
    @given(strategy)
    def _t(case):
        body(case)

    _t()


def drive_machine(machine_cls, n_examples, steps, seed_value):
    import hypothesis
    from hypothesis import HealthCheck, Phase, settings
    from hypothesis.stateful import run_state_machine_as_test
    run_state_machine_as_test(
        hypothesis.seed(seed_value)(machine_cls),
        settings=settings(max_examples=n_examples, stateful_step_count=steps, database=None, deadline=None,
                          derandomize=False, report_multiple_bugs=False,
                          suppress_health_check=list(HealthCheck), phases=[Phase.generate], print_blob=False))


class Stopwatch:
    def __init__(self):
        self.t0 = time.time()

    def elapsed(self):
        return time.time() - self.t0
