"""Reference-model self-test: designs from the repository's acceptance tests and guide re-expressed as specs, with the
solution counts the MAINTAINERS assert.  `selftest()` must pass before any reference-based check is trusted (exit 2
otherwise - a harness error, never a violation)."""
import json

from . import ref as R


def _key(k):
    return json.dumps(k, separators=(",", ":"))


def table(args_levels, width, fn):
    """overrides for every window input: fn(*per-arg values) -> level index; per-arg value is a name (width 1) or a list"""
    import itertools
    ov = {}
    if width == 1:
        for combo in itertools.product(*args_levels):
            ov[_key(list(combo))] = fn(*combo)
    else:
        per_arg = [list(itertools.product(lv, repeat=width)) for lv in args_levels]
        for combo in itertools.product(*per_arg):
            ov[_key([list(c) for c in combo])] = fn(*[list(c) for c in combo])
    return ov


def F(name, levels):
    return {"name": name, "levels": [[l, 1] if not isinstance(l, list) else l for l in levels]}


def Dv(name, args, kind, levels, ov, width=1, stride=1, start=None):
    return {"name": name, "args": args, "kind": kind, "width": width, "stride": stride, "start": start,
            "levels": [[l, 1] for l in levels], "else_last": False, "salt": 0, "overrides": ov}


def cross(design, crossing, constraints=(), rcc=True):
    return {"type": "cross", "design": design, "crossing": crossing, "constraints": list(constraints), "rcc": rcc}


def fixtures():
    out = []
    col = ["red", "blue"]
    color, text = F("color", col), F("text", col)
    con = Dv("con", ["color", "text"], "within", ["con", "inc"], table([col, col], 1, lambda c, t: 0 if c == t else 1))
    repc = Dv("repc", ["color"], "transition", ["yes", "no"], table([col], 2, lambda c: 0 if c[0] == c[1] else 1), width=2)
    rept = Dv("rept", ["text"], "transition", ["yes", "no"], table([col], 2, lambda c: 0 if c[0] == c[1] else 1), width=2)

    def S(derived, block):
        return {"factors": [color, text], "derived": derived, "block": block}
    out.append(("stroop", S([], cross(["color", "text"], ["color", "text"])), 24))
    out.append(("stroop+con", S([con], cross(["color", "text", "con"], ["color", "text"])), 24))
    out.append(("stroop+con atmost1", S([con], cross(["color", "text", "con"], ["color", "text"],
                [{"kind": "atmost", "factor": "con", "level": "con", "k": 1}])), 12))
    out.append(("stroop+con exactly2inarow(factor)", S([con], cross(["color", "text", "con"], ["color", "text"],
                [{"kind": "exactly_row", "factor": "con", "level": None, "k": 2}])), 8))
    out.append(("stroop+repc", S([repc], cross(["color", "text", "repc"], ["color", "text"])), 24))
    out.append(("stroop+repc atmost1 yes", S([repc], cross(["color", "text", "repc"], ["color", "text"],
                [{"kind": "atmost", "factor": "repc", "level": "yes", "k": 1}])), 24))
    out.append(("stroop+repc+rept atmost", S([repc, rept], cross(["color", "text", "repc", "rept"], ["color", "text"],
                [{"kind": "atmost", "factor": "repc", "level": "yes", "k": 1}, {"kind": "atmost", "factor": "rept", "level": "yes", "k": 1}])), 24))
    out.append(("stroop+repc exclude yes", S([repc], cross(["color", "text", "repc"], ["color", "text"],
                [{"kind": "exclude", "factor": "repc", "level": "yes"}])), 8))
    # test_pin
    num = F("number", ["1", "2", "3"])
    for idx, n in ((0, 2), (-1, 2), (-2, 2), (100, 0), (-100, 0)):
        out.append(("pin %d" % idx, {"factors": [num], "derived": [], "block": cross(["number"], ["number"],
                    [{"kind": "pin", "factor": "number", "level": "1", "index": idx}])}, n))
    unity = Dv("unity", ["number"], "within", ["one", "many"], table([["1", "2", "3"]], 1, lambda n: 0 if n == "1" else 1))
    out.append(("pin derived many", {"factors": [num], "derived": [unity], "block": cross(["number", "unity"], ["number"],
                [{"kind": "pin", "factor": "unity", "level": "many", "index": 0}])}, 4))
    # test_reduced_crossing_with_exclude
    c3 = ["red", "blue", "green"]
    color3, word = F("color", c3), F("word", col)
    sc = Dv("sc", ["color", "word"], "within", ["legal", "illegal"], table([c3, col], 1, lambda c, w: 1 if (c == "green" and w == "blue") else 0))
    excl = [{"kind": "exclude", "factor": "sc", "level": "illegal"}]
    out.append(("reduced crossing rcc", {"factors": [color3, word], "derived": [sc], "block": cross(["color", "word", "sc"], ["color", "word"], excl, True)}, 0))
    out.append(("reduced crossing no rcc", {"factors": [color3, word], "derived": [sc], "block": cross(["color", "word", "sc"], ["color", "word"], excl, False)}, 120))
    sct = Dv("sct", ["color", "word"], "transition", ["legal", "illegal"],
             table([c3, col], 2, lambda c, w: 1 if (c[1] == "green" and w[1] == "blue") else 0), width=2)
    out.append(("reduced crossing via transition", {"factors": [color3, word], "derived": [sct],
                "block": cross(["color", "word", "sct"], ["color", "word"], [{"kind": "exclude", "factor": "sct", "level": "illegal"}], False)}, 120))
    # excluding a crossed basic level
    out.append(("exclude crossed level", {"factors": [color3, word], "derived": [], "block": cross(["color", "word"], ["color", "word"],
                [{"kind": "exclude", "factor": "color", "level": "green"}], False)}, 24))
    # weights: Level docs
    cw = F("color", [["red", 2], ["blue", 1]])
    out.append(("weighted crossed", {"factors": [cw], "derived": [], "block": cross(["color"], ["color"])}, 3))
    out.append(("weighted uncrossed", {"factors": [F("a", ["x", "y"]), cw], "derived": [], "block": cross(["a", "color"], ["a"])}, 2 * 9))
    # MinimumTrials on a CrossBlock scales the crossing (guide): 2 levels, 4 trials -> each level twice
    out.append(("minimum trials", {"factors": [F("a", ["x", "y"])], "derived": [], "block": cross(["a"], ["a"], [{"kind": "min", "k": 4}])}, 6))
    # combinators: acceptance/test_minimum_trials.py (Repeat with leftover) and acceptance/test_nest_block.py
    import math
    resp, cong = F("resp", ["H", "S"]), F("cong", ["con", "inc"])
    for tc in (4, 5, 6):
        left = tc % 4
        out.append(("repeat min %d" % tc, {"factors": [resp, cong], "derived": [],
                    "block": {"type": "repeat", "block": cross(["resp", "cong"], ["resp", "cong"]), "constraints": [{"kind": "min", "k": tc}]}},
                    24 * (24 // math.factorial(4 - left)) if tc > 4 else 24))
    A2, B2, ses = F("A", ["a1", "a2"]), F("B", ["b1", "b2"]), F("session", ["s1", "s2"])
    out.append(("nest session x AB", {"factors": [A2, B2, ses], "derived": [],
                "block": {"type": "nest", "outer": cross(["session"], ["session"]), "inner": cross(["A", "B"], ["A", "B"]), "constraints": [], "alignment": None}},
                24 * 24 * 2))
    E = Dv("E", ["A", "B"], "within", ["consi", "incons"], table([["a1", "a2"], ["b1", "b2"]], 1, lambda a, b: 0 if a[1] == b[1] else 1))
    out.append(("nest dependent", {"factors": [A2, B2, ses], "derived": [E],
                "block": {"type": "nest", "outer": cross(["A", "B", "E"], ["A", "E"]), "inner": cross(["session"], ["session"]), "constraints": [], "alignment": None}},
                384))
    return out


def selftest():
    """returns a list of error strings (empty = ok)"""
    errs = []
    for name, spec, want in fixtures():
        try:
            r = R.Ref(spec)
            got = r.enumerate()
            n = None if got is None else sum(got.values())
        except Exception as e:  # noqa
            errs.append("%s: reference raised %s: %s" % (name, type(e).__name__, e))
            continue
        if n != want:
            errs.append("%s: reference counts %r, maintainers expect %d (ambiguity labels %r)" % (name, n, want, r.ambiguous))
        if r.ambiguous and not (want == 0):
            errs.append("%s: reference calls a maintainers' test design ambiguous: %r" % (name, r.ambiguous))
    return errs
