"""Exact exploration of RandomGen's draw tree (DESIGN.md, C05).

The `random` module object seen by sweetpea's sampling_strategy/random.py is replaced by a scripted one; the public
`RandomGen.sample(block, 1)` is re-run for every script (depth-first over randrange outcomes, each node recording its
range).  A second candidate request means 'the first candidate was rejected' and ends the run.  Each leaf has the exact
probability prod(1/range) as a Fraction.
"""
from fractions import Fraction

from . import env


class _Stop(BaseException):
    pass


class TooLarge(Exception):
    pass


class _Script:
    def __init__(self):
        self.script = []
        self.pos = 0
        self.trace = []

    def randrange(self, a, b=None, step=1):
        lo, hi = (0, a) if b is None else (a, b)
        n = hi - lo
        if n <= 0:
            raise ValueError("empty range for randrange (%r, %r)" % (a, b))
        c = self.script[self.pos] if self.pos < len(self.script) else 0
        self.pos += 1
        self.trace.append((c, n))
        return lo + c

    def __getattr__(self, name):          # any other use of the random module inside that file would escape the script
        raise AttributeError("scripted random: unexpected use of random.%s" % name)


def explore(block, max_leaves):
    """list of (probability Fraction, outcome) - outcome: dict name->list (accepted), None (rejected) or 'EMPTY'"""
    import sweetpea._internal.sampling_strategy.random as R
    scr = _Script()
    orig_random = R.random
    orig_enum_cls = R.UCSolutionEnumerator
    orig_grs = orig_enum_cls.generate_random_samples
    calls = [0]
    cache = {}

    def factory(blk):
        if id(blk) not in cache:
            cache[id(blk)] = orig_enum_cls(blk)
        return cache[id(blk)]

    def wrapped(self, *a, **k):
        calls[0] += 1
        if calls[0] > 1:
            raise _Stop()
        return orig_grs(self, *a, **k)

    leaves = []
    R.random = scr
    R.UCSolutionEnumerator = factory
    orig_enum_cls.generate_random_samples = wrapped
    try:
        stack = [[]]
        while stack:
            prefix = stack.pop()
            scr.script, scr.pos, scr.trace = prefix, 0, []
            calls[0] = 0
            try:
                with env.quiet():
                    res = R.RandomGen.sample(block, 1)
                out = res.samples[0] if res.samples else "EMPTY"
            except _Stop:
                out = None
            tr = list(scr.trace)
            p = Fraction(1)
            for c, n in tr:
                p /= n
            leaves.append((p, out))
            if len(leaves) + len(stack) > max_leaves:
                raise TooLarge()
            for i in range(len(prefix), len(tr)):
                for alt in range(1, tr[i][1]):
                    stack.append([c for c, n in tr[:i]] + [alt])
    finally:
        R.random = orig_random
        R.UCSolutionEnumerator = orig_enum_cls
        orig_enum_cls.generate_random_samples = orig_grs
    return leaves
