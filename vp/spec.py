"""Design-spec language: plain JSON data describing a SweetPea design (DESIGN.md section 3).

spec = {"factors": [Factor...], "derived": [Derived...], "block": Block}
Factor   = {"name": str, "levels": [[name, weight], ...]}
Derived  = {"name": str, "args": [factor names], "kind": "within"|"transition"|"window", "width": int, "stride": int,
            "start": int|None, "levels": [[name, weight], ...], "else_last": bool, "salt": int,
            "overrides": {key-json: index | None | [i, j]}}
Block    = {"type": "cross", "design": [names], "crossing": [names], "constraints": [C...], "rcc": bool}
         | {"type": "multi", "design": [...], "crossings": [[names]...], "constraints": [...], "rcc": bool,
            "mode": "equal"|"repeat"|"weight", "alignment": "equal preamble"|"post preamble"|"parallel start"}
         | {"type": "repeat", "block": Block, "constraints": [...]}
         | {"type": "merge", "blocks": [Block...], "constraints": [...], "mode": ..., "alignment": None|...}
         | {"type": "nest", "outer": Block, "inner": Block, "constraints": [...], "alignment": None|...}
C        = {"kind": "exclude"|"pin"|"min"|"atmost"|"atleast"|"exactly_row"|"exactly_k"|"sequential"|"latin", ...}

A derived level's predicate is a TOTAL lookup table: index(key) = overrides.get(key, H(salt, key) mod n_levels);
level i accepts key iff index(key) == i  (an override of None = no level accepts, [i, j] = both accept: used by C15).
"""
import hashlib
import json

KINDS_LEVEL = ("exclude", "pin", "atmost", "atleast", "exactly_row", "exactly_k")
MODES = ("equal", "repeat", "weight")
ALIGNMENTS = ("equal preamble", "post preamble", "parallel start")


def key_json(key):
    return json.dumps(key, separators=(",", ":"))


def hidx(salt, key, n):
    return int(hashlib.md5((str(salt) + "|" + key_json(key)).encode()).hexdigest(), 16) % n


def table_index(d, key):
    """The value of the derived factor's total function on a window input `key`.
    Returns int (level index), None (gap) or a list (overlap)."""
    ov = d.get("overrides") or {}
    kj = key_json(key)
    if kj in ov:
        return ov[kj]
    return hidx(d["salt"], key, len(d["levels"]))


def all_factor_names(spec):
    return [f["name"] for f in spec["factors"]] + [d["name"] for d in spec["derived"]]


def levels_of(spec, name):
    for f in spec["factors"]:
        if f["name"] == name:
            return f["levels"]
    for d in spec["derived"]:
        if d["name"] == name:
            return d["levels"]
    raise KeyError(name)


def derived_by_name(spec):
    return {d["name"]: d for d in spec["derived"]}


def window_of(d):
    """(width, stride, explicit start or None)"""
    if d["kind"] == "within":
        return 1, 1, None
    if d["kind"] == "transition":
        return 2, 1, None
    return d["width"], d["stride"], d.get("start")


def iter_blocks(b):
    yield b
    t = b["type"]
    if t == "repeat":
        yield from iter_blocks(b["block"])
    elif t == "merge":
        for x in b["blocks"]:
            yield from iter_blocks(x)
    elif t == "nest":
        yield from iter_blocks(b["outer"])
        yield from iter_blocks(b["inner"])


def leaf_blocks(b):
    return [x for x in iter_blocks(b) if x["type"] in ("cross", "multi")]


def block_crossings(b):
    if b["type"] == "cross":
        return [b["crossing"]]
    if b["type"] == "multi":
        return b["crossings"]
    return []


def all_constraints(b):
    out = []
    for x in iter_blocks(b):
        out.extend(x.get("constraints", []))
    return out


def wellformed(spec):
    """Structural sanity (used by the shrinker: an ill-formed candidate is simply not a failure)."""
    try:
        names = set()
        lv = {}
        for f in spec["factors"]:
            if not isinstance(f["name"], str) or f["name"] in names or not f["levels"]:
                return False
            names.add(f["name"])
            ln = [l[0] for l in f["levels"]]
            if len(set(ln)) != len(ln) or any((not isinstance(l[1], int)) or l[1] < 1 for l in f["levels"]):
                return False
            lv[f["name"]] = ln
        for d in spec["derived"]:
            if d["name"] in names or not d["levels"] or not d["args"]:
                return False
            if any(a not in names for a in d["args"]) or len(set(d["args"])) != len(d["args"]):
                return False
            if d["kind"] not in ("within", "transition", "window"):
                return False
            w, s, st = window_of(d)
            if not (isinstance(w, int) and isinstance(s, int) and w >= 1 and s >= 1):
                return False
            if st is not None and (not isinstance(st, int) or st < 0):
                return False
            ln = [l[0] for l in d["levels"]]
            if len(set(ln)) != len(ln) or any((not isinstance(l[1], int)) or l[1] < 1 for l in d["levels"]):
                return False
            if d.get("else_last") and len(d["levels"]) < 2:
                return False
            for k, v in (d.get("overrides") or {}).items():
                json.loads(k)
                if v is not None and not isinstance(v, (int, list)):
                    return False
                if isinstance(v, int) and not (0 <= v < len(ln)):
                    return False
            names.add(d["name"])
            lv[d["name"]] = ln
        return _wf_block(spec["block"], names, lv)
    except (KeyError, TypeError, ValueError, IndexError):
        return False


def _wf_constraints(cs, names, lv):
    for c in cs:
        if "ref" in c and "kind" not in c:          # C18: reference into the case's constraint pool
            if not isinstance(c["ref"], int) or c["ref"] < 0:
                return False
            continue
        k = c["kind"]
        if k == "min":
            if not isinstance(c["k"], int) or c["k"] < 1:
                return False
        elif k in KINDS_LEVEL:
            if c["factor"] not in names:
                return False
            lev = c.get("level")
            if lev is None:
                if k in ("exclude", "pin"):
                    return False
            elif lev not in lv[c["factor"]]:
                return False
            if k == "pin" and not isinstance(c["index"], int):
                return False
            if k in ("atmost", "atleast", "exactly_row", "exactly_k") and (not isinstance(c["k"], int) or c["k"] < 1):
                return False
        elif k == "sequential":
            if c["factor"] not in names:
                return False
        elif k == "latin":
            if not c["factors"] or any(f not in names for f in c["factors"]):
                return False
        else:
            return False
    return True


def _wf_block(b, names, lv):
    t = b["type"]
    if not _wf_constraints(b.get("constraints", []), names, lv):
        return False
    if t in ("cross", "multi"):
        if not b["design"] or any(n not in names for n in b["design"]) or len(set(b["design"])) != len(b["design"]):
            return False
        for c in block_crossings(b):
            if any(n not in b["design"] for n in c) or len(set(c)) != len(c):
                return False
        if t == "multi" and (b["mode"] not in MODES or b["alignment"] not in ALIGNMENTS):
            return False
        return isinstance(b["rcc"], bool)
    if t == "repeat":
        return _wf_block(b["block"], names, lv)
    if t == "merge":
        if not b["blocks"] or b["mode"] not in MODES or b.get("alignment") not in ALIGNMENTS + (None,):
            return False
        return all(_wf_block(x, names, lv) for x in b["blocks"])
    if t == "nest":
        if b.get("alignment") not in ALIGNMENTS + (None,):
            return False
        return _wf_block(b["outer"], names, lv) and _wf_block(b["inner"], names, lv)
    return False


def features(spec):
    """Class labels of a spec (DESIGN.md section 3)."""
    labs = set()
    dm = derived_by_name(spec)
    for d in spec["derived"]:
        w, s, st = window_of(d)
        labs.add("has-" + d["kind"])
        if s > 1:
            labs.add("window-stride>1")
        if w >= 3:
            labs.add("window-width>=3")
        if st is not None:
            labs.add("window-explicit-start")
        if any(a in dm for a in d["args"]):
            labs.add("derived-of-derived")
        if any(l[1] > 1 for l in d["levels"]):
            labs.add("weights-derived")
        if d.get("else_last"):
            labs.add("else-level")
    crossed = set()
    for b in iter_blocks(spec["block"]):
        labs.add("block-" + b["type"])
        for c in block_crossings(b):
            crossed.update(c)
        for c in b.get("constraints", []):
            labs.add("c-" + c.get("kind", "ref"))
            if c.get("level", 0) is None:
                labs.add("factor-shorthand")
        if b["type"] == "multi":
            labs.add("multi-%s-%s" % (b["mode"], b["alignment"].replace(" ", "-")))
        if b["type"] == "merge":
            labs.add("merge-%s" % b["mode"])
        if b["type"] in ("cross", "multi") and not b["rcc"]:
            labs.add("rcc-false")
    for f in spec["factors"]:
        if any(l[1] > 1 for l in f["levels"]):
            labs.add("weights-crossed" if f["name"] in crossed else "weights-uncrossed")
    if any(n in dm for n in crossed):
        labs.add("crossed-derived")
    for ft in spec.get("scenario", []) or []:
        labs.add("scenario:" + str(ft))
    sk = spec.get("skeleton")
    if isinstance(sk, dict) and sk.get("kind") == "round":
        labs.add("round-skeleton")
        labs.add("round:extra=%s" % sk.get("extra"))
        labs.add("round:crossed=%s%s" % (sk.get("crossed"), "+complex" if sk.get("complex") else ""))
        if sk.get("weighted") != "no":
            labs.add("round:weighted=%s" % sk.get("weighted"))
        labs.add("round:how=%s" % sk.get("how"))
    return sorted(labs)
