"""C12 - adder and population-count clause builders compute binary sums and leave no freedom.

Oracle: integer arithmetic on every input assignment (exhaustive), plus uniqueness of the extension
to all non-input variables (outputs, internal carries, padding).
Saturating forms (ripple_saturate at full width, pop_count with saturate_at>0 and s output bits):
value exact whenever it is < 2^(s-1); top bit set whenever it is >= 2^(s-1)  (the part every caller
relies on; low bits of a saturated result are an observation, not judged).
"""
import itertools

from hypothesis import strategies as st

from .. import runner, satutil
from ..runner import Acc

ID = "C12"
LEVEL = "exploration"
RULE = ("case = (builder, widths / saturate_at, variable numbering); every input assignment of every case is checked "
        "(exhaustive within the tier's width bound); Hypothesis adds wider inputs on arbitrary distinct variable ids with "
        "drawn assignments; non-trivial = at least 2 input variables; distinct = distinct (builder, parameters, numbering)")
ASSUMPTIONS = ["pycryptosat is a correct SAT solver", "ripple_carry / ripple_saturate are only specified for operands of equal width "
               "and width <= saturate_at (their only call sites)"]


def _mk(case):
    """returns (clauses, input var ids (ordered), decode(model, truth) -> error message or None)"""
    from sweetpea._internal.core.cnf import CNF, Var
    fn = case["fn"]
    ids = case["ids"]
    cnf = CNF.from_fresh(case["fresh"])
    V = [Var(i) for i in ids]

    def val(bits_msb_first, model):
        v = 0
        for b in bits_msb_first:
            v = v * 2 + (1 if model[abs(int(b))] == (int(b) > 0) else 0)
        return v

    def bit(b, model):
        return 1 if model[abs(int(b))] == (int(b) > 0) else 0

    if fn == "half_adder":
        c, s = cnf.half_adder(V[0], V[1])

        def dec(model, t):
            tot = t[0] + t[1]
            got = 2 * bit(c, model) + bit(s, model)
            return None if got == tot else "half_adder %r -> carry,sum=%d expected %d" % (t, got, tot)
    elif fn == "full_adder":
        cin = V[2] if len(V) > 2 else None
        c, s = cnf.full_adder(V[0], V[1], cin)

        def dec(model, t):
            tot = sum(t)
            got = 2 * bit(c, model) + bit(s, model)
            return None if got == tot else "full_adder %r -> %d expected %d" % (t, got, tot)
    elif fn == "saturate_adder":
        cin = V[2] if len(V) > 2 else None
        s = cnf.saturate_adder(V[0], V[1], cin)

        def dec(model, t):
            want = 1 if any(t) else 0
            got = bit(s, model)
            return None if got == want else "saturate_adder %r -> %d expected %d" % (t, got, want)
    elif fn == "ripple_carry":
        w = case["w"]
        xs, ys = V[:w], V[w:2 * w]
        c, ss = cnf.ripple_carry(list(xs), list(ys))

        def dec(model, t):
            x = int("".join(map(str, t[:w])), 2)
            y = int("".join(map(str, t[w:])), 2)
            got = bit(c, model) * (2 ** w) + sum(bit(b, model) << i for i, b in enumerate(ss))
            if len(ss) != w:
                return "ripple_carry returned %d sum bits for width %d" % (len(ss), w)
            return None if got == x + y else "ripple_carry %d+%d -> %d" % (x, y, got)
    elif fn == "ripple_saturate":
        w, sat = case["w"], case["sat"]
        xs, ys = V[:w], V[w:2 * w]
        out = cnf.ripple_saturate(list(xs), list(ys), sat)

        def dec(model, t):
            x = int("".join(map(str, t[:w])), 2)
            y = int("".join(map(str, t[w:])), 2)
            s_bits = len(out)
            if s_bits > sat:
                return "ripple_saturate returned %d bits, more than saturate_at=%d" % (s_bits, sat)
            got = val(out, model)
            tot = x + y
            if w < sat:
                return None if got == tot else "ripple_saturate(unsaturated) %d+%d -> %d" % (x, y, got)
            if tot < 2 ** (s_bits - 1):
                return None if got == tot else "ripple_saturate %d+%d -> %d (below saturation, must be exact)" % (x, y, got)
            return None if bit(out[0], model) == 1 else "ripple_saturate %d+%d=%d >= 2^%d but top bit clear" % (x, y, tot, s_bits - 1)
    elif fn == "pop_count":
        sat = case["sat"]
        out = cnf.pop_count(list(V), sat)

        def dec(model, t):
            cnt = sum(t)
            s_bits = len(out)
            got = val(out, model)
            if sat == 0 or s_bits < sat:
                return None if got == cnt else "pop_count(exact) of %r -> %d" % (t, got)
            if s_bits > sat:
                return "pop_count returned %d bits, more than saturate_at=%d" % (s_bits, sat)
            if cnt < 2 ** (s_bits - 1):
                return None if got == cnt else "pop_count of %r -> %d (below saturation, must be exact)" % (t, got)
            return None if bit(out[0], model) == 1 else "pop_count %d >= 2^%d but top bit clear" % (cnt, s_bits - 1)
    else:
        raise ValueError(fn)
    return cnf.as_list_of_list_of_ints(), dec


def valid(case):
    try:
        ids = case["ids"]
        fn = case["fn"]
        if len(set(ids)) != len(ids) or min(ids) < 1 or case["fresh"] < max(ids):
            return False
        need = {"half_adder": (2, 2), "full_adder": (2, 3), "saturate_adder": (2, 3)}.get(fn)
        if need and not (need[0] <= len(ids) <= need[1]):
            return False
        if fn in ("ripple_carry", "ripple_saturate"):
            if case["w"] < 1 or len(ids) != 2 * case["w"]:
                return False
        if fn == "ripple_saturate" and not (case["w"] <= case["sat"]):
            return False
        if fn == "pop_count" and (len(ids) < 1 or case["sat"] < 0):
            return False
        if case.get("assignments") is not None and any(len(a) != len(ids) for a in case["assignments"]):
            return False
        return fn in ("half_adder", "full_adder", "saturate_adder", "ripple_carry", "ripple_saturate", "pop_count")
    except (KeyError, TypeError, ValueError):
        return False


def check_case(case):
    if not valid(case):
        return []
    try:
        clauses, dec = _mk(case)
    except Exception as e:
        return [runner.Failure("exception:%s:%s" % (case["fn"], type(e).__name__), case, "%s: %s" % (type(e).__name__, e))]
    ids = case["ids"]
    aux = sorted(satutil.all_vars(clauses) - set(ids))
    if any(a <= case["fresh"] for a in aux):
        return [runner.Failure("aux-below-fresh:" + case["fn"], case, "fresh variables collide with existing numbering")]
    solver = satutil.Sat(clauses)
    assigns = case.get("assignments")
    if assigns is None:
        assigns = itertools.product([0, 1], repeat=len(ids))
    for t in assigns:
        t = tuple(int(bool(x)) for x in t)
        lits = [i if b else -i for i, b in zip(ids, t)]
        sat, model = solver.solve(lits)
        if not sat:
            return [runner.Failure("unsat:" + case["fn"], case, "inputs %r: no satisfying extension" % (t,))]
        msg = dec(model, t)
        if msg:
            return [runner.Failure("wrong-sum:" + case["fn"], case, msg)]
        if solver.count_extensions(lits, aux, cap=2) != 1:
            return [runner.Failure("aux-not-unique:" + case["fn"], case, "inputs %r: more than one extension" % (t,))]
    return []


def numberings(n):
    yield list(range(1, n + 1)), n
    yield list(range(3, n + 3)), n + 5
    yield list(range(2 * n, 0, -2)), 2 * n + 1


def sweep(tier):
    big = tier == "thorough"
    for ids, fresh in numberings(2):
        yield {"fn": "half_adder", "ids": ids, "fresh": fresh}
        yield {"fn": "full_adder", "ids": ids, "fresh": fresh}
        yield {"fn": "saturate_adder", "ids": ids, "fresh": fresh}
    for ids, fresh in numberings(3):
        yield {"fn": "full_adder", "ids": ids, "fresh": fresh}
        yield {"fn": "saturate_adder", "ids": ids, "fresh": fresh}
    W = 7 if big else 5
    for w in range(1, W + 1):
        for ids, fresh in numberings(2 * w):
            yield {"fn": "ripple_carry", "w": w, "ids": ids, "fresh": fresh}
            for sat in range(w, W + 2):
                yield {"fn": "ripple_saturate", "w": w, "sat": sat, "ids": ids, "fresh": fresh}
    N = 14 if big else 10
    S = 7 if big else 5
    for n in range(1, N + 1):
        for sat in range(0, S + 1):
            for ids, fresh in numberings(n):
                if n > 10 and ids[0] != 1:
                    continue
                yield {"fn": "pop_count", "sat": sat, "ids": ids, "fresh": fresh}


def _run_chunk(cases):
    acc = Acc()
    for case in cases:
        fs = check_case(case)
        n = len(case["ids"])
        acc.case(case, n >= 2, [case["fn"], "inputs=%d" % n if n <= 14 else "inputs>14"] +
                 (["sat=%d" % case["sat"]] if "sat" in case else []))
        acc.extra["assignments_checked"] = acc.extra.get("assignments_checked", 0) + \
            (2 ** n if case.get("assignments") is None else len(case["assignments"]))
        for f in fs:
            acc.fail(f["bucket"], f["case"], f["message"])
    return acc


@st.composite
def big_case(draw):
    fn = draw(st.sampled_from(["ripple_carry", "ripple_saturate", "pop_count", "pop_count"]))
    if fn == "pop_count":
        n = draw(st.integers(1, 40))
        case = {"fn": fn, "sat": draw(st.integers(0, 7))}
    else:
        w = draw(st.integers(1, 12))
        n = 2 * w
        case = {"fn": fn, "w": w}
        if fn == "ripple_saturate":
            case["sat"] = w + draw(st.integers(0, 2))
    ids = draw(st.lists(st.integers(1, 120), min_size=n, max_size=n, unique=True))
    case["ids"] = ids
    case["fresh"] = max(ids) + draw(st.integers(0, 2))
    if n > 10:
        case["assignments"] = [draw(st.lists(st.integers(0, 1), min_size=n, max_size=n)) for _ in range(40)] + \
                              [[0] * n, [1] * n]
    return case


def _run_hyp(arg):
    seed_value, n = arg
    acc = runner.track(Acc())
    runner.drive(big_case(), lambda case: acc.merge(_run_chunk([case])), n, seed_value)
    return acc


def run(tier, seed):
    cases = list(sweep(tier))
    cases.sort(key=lambda c: -len(c["ids"]))
    nch = 64
    acc = runner.run_jobs(_run_chunk, [cases[i::nch] for i in range(nch) if cases[i::nch]])
    acc.extra["sweep_tuples"] = len(cases)
    n_hyp = 40 if tier == "quick" else 500
    acc.merge(runner.run_jobs(_run_hyp, [(runner.shard_seed(seed, i), n_hyp) for i in range(16)]))
    acc.extra["exhaustive"] = True
    acc.extra["exhaustive_scope"] = "all builders/widths/saturation points of sweep(tier) with all input assignments"
    return acc
