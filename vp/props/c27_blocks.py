"""C27, design-level part: the DIMACS files the samplers really write for generated blocks.

Generator: the shared design generator (random designs + feature-interaction scenarios, all block kinds).  Observation by
module-attribute substitution only (no source hook): `sample_non_uniform.cryptominisat_solve` and `sample_uniform.call_unigen`
are wrapped by a spy that reads the file before handing it on to the real function.

Oracle per captured file: strict DIMACS parse (vp/dimacs.py); header variable count >= highest variable used; header
clause count == number of clause lines; the `c ind` lines list exactly 1..variables_per_sample, at most 10 per line; the
clause multiset equals build_cnf(block)'s (the CNF object the text is meant to spell); the library's own parse_cnf_file
returns the same clauses and sampling set.  Between iterations of IterateSATGen: the next file is the previous one plus
exactly one clause, and that clause is the negation of the previous solution's trial-sequence assignment (its literals are
exactly the previous solution restricted to 1..support, negated) - it excludes that assignment and nothing else.  The
solution the loop hands on is the solver's assignment restricted to the support (checked against the clauses: every
returned assignment extends to a model of the file it was computed from).
"""
import importlib
from pathlib import Path

from .. import design as D
from .. import dimacs, env, lib as L, runner, satutil, strategies as G

SAMPLES = 3


def _file_checks(ctx, tag, text, support, expected):
    P = dimacs.parse(text)
    if P["errors"]:
        ctx.fail("block:dimacs-format:" + tag, "; ".join(P["errors"][:3]))
        return None
    used = dimacs.max_var(P)
    if P["nvars"] < used:
        ctx.fail("block:header-vars-too-small:" + tag, "header declares %d variables, formula uses variable %d" % (P["nvars"], used))
    if P["nclauses"] != len(P["clauses"]):
        ctx.fail("block:header-clause-count:" + tag, "header declares %d clauses, file has %d" % (P["nclauses"], len(P["clauses"])))
    if any(len(l) > 10 for l in P["ind_lines"]):
        ctx.fail("block:ind-line-too-long:" + tag, "a c ind line lists more than 10 variables")
    if P["ind"] != list(range(1, support + 1)):
        ctx.fail("block:ind-set-wrong:" + tag, "sampling set lines list %r..., expected 1..%d" % (P["ind"][:12], support))
    if expected is not None and dimacs.canon_clauses(P["clauses"]) != expected:
        ctx.fail("block:clauses-differ:" + tag, "clauses in the file differ from build_cnf(block) (%d in the file)" % len(P["clauses"]))
    return P


def judge(ctx):
    spec = ctx.spec
    blk = ctx.block
    ctx.require_small()
    SNU = importlib.import_module("sweetpea._internal.core.generate.sample_non_uniform")
    SU = importlib.import_module("sweetpea._internal.core.generate.sample_uniform")
    from sweetpea._internal.core.generate.tools import unigen as UG
    with env.quiet():
        if blk.show_errors():
            raise D.Skip("block-reports-errors")
        expected = dimacs.canon_clauses(L.cnf_clauses(blk))
        support = blk.variables_per_sample()
    ctx.nontrivial = support >= 11 or bool(spec["derived"])
    if support > 10:
        ctx.label("block:support>10")
    # ---- IterateSATGen: the file at every iteration
    files = []
    orig = SNU.cryptominisat_solve

    def spy(filename, *a, **k):
        text = Path(filename).read_text()
        sol = orig(filename, *a, **k)
        files.append((text, list(sol) if sol else None))
        return sol
    SNU.cryptominisat_solve = spy
    try:
        res, _ = L.synth(ctx.fresh_built().block, SAMPLES, "IterateSATGen", D.lib_seed(spec))
    finally:
        SNU.cryptominisat_solve = orig
    prev = None
    for i, (text, sol) in enumerate(files):
        P = _file_checks(ctx, "iterate", text, support, expected if i == 0 else None)
        if P is None:
            return
        if i == 0:
            with env.quiet():
                tmp = Path("c27b-%s.cnf" % runner.digest(spec))
                tmp.write_text(text)
                try:
                    cl2, samp2, nv2 = UG.parse_cnf_file(tmp)
                finally:
                    tmp.unlink()
            if [list(c) for c in cl2] != P["clauses"] or list(samp2) != list(range(1, support + 1)) or nv2 != P["nvars"]:
                ctx.fail("block:parse_cnf_file", "the library's parser returns other clauses / sampling set / variable count than the strict parse")
        if prev is not None:
            pP, psol = prev
            if P["clauses"][:len(pP["clauses"])] != pP["clauses"] or len(P["clauses"]) != len(pP["clauses"]) + 1:
                ctx.fail("block:update-clauses", "iteration %d: old clauses not preserved / not exactly one clause added" % i)
                return
            if P["nvars"] != pP["nvars"] or P["ind_lines"] != pP["ind_lines"]:
                ctx.fail("block:update-header", "iteration %d: variable count or sampling-set lines changed" % i)
            want = sorted(-l for l in psol[:support])
            if sorted(P["clauses"][-1]) != want:
                ctx.fail("block:update-blocks-wrong-set", "iteration %d: added clause %r..., previous solution's support assignment negated is %r..."
                         % (i, sorted(P["clauses"][-1])[:8], want[:8]))
        if sol:
            s_ = [l for l in sol if l != 0]
            if [abs(l) for l in s_[:support]] != list(range(1, support + 1)):
                ctx.fail("block:solver-output-shape", "iteration %d: parsed assignment does not start with variables 1..%d" % (i, support))
            elif not satutil.Sat(P["clauses"]).solve(s_[:support])[0]:
                ctx.fail("block:solver-output-non-model", "iteration %d: the parsed assignment does not extend to a model of the file" % i)
        prev = (P, sol or [])
    ctx.label("block:iterate-files=%d" % min(len(files), 4))
    # ---- CMSGen / UniGen: the file handed to the sampler
    for gen in ("CMSGen", "UniGen"):
        seen = []
        orig_call = SU.call_unigen

        def spy2(sample_count, input_file, *a, **k):
            seen.append(Path(input_file).read_text())
            return ""                       # the sampler itself is exercised by C01/C08; here only its input matters
        SU.call_unigen = spy2
        try:
            L.synth(ctx.fresh_built().block, 2, gen, D.lib_seed(spec))
        finally:
            SU.call_unigen = orig_call
        for text in seen:
            _file_checks(ctx, gen, text, support, expected)
        ctx.label("block:%s-files=%d" % (gen, len(seen)))


CFG = G.cfg(blocks=("cross", "cross", "multi", "repeat", "merge", "nest"))
P = D.DesignProperty(
    "C27", judge,
    rule="design-level part: generated block; files captured at every IterateSATGen iteration and at the CMSGen/UniGen call",
    cfg_quick=CFG, n_quick=20, n_thorough=200, case_limit=(12, 90),
    limits={"max_T": {"quick": 8, "thorough": 12}}, uses_reference=False)


def _entry(arg):
    return P._shard(arg)


def check_case(spec):
    return P.check_case(spec)


def run(tier, seed):
    return runner.run_jobs(_entry, [(tier, runner.shard_seed(seed, 100 + i), P.n[tier]) for i in range(16)],
                           hard_case_s=2.5 * P.case_limit[tier] + 20)
