"""C26 - block constraints apply per repetition; combinator constraints apply globally.

Generator: Repeat / Merge / Nest over CrossBlocks, with constraints (Pin incl. negative, ExactlyK, AtMost/AtLeast/
ExactlyKInARow, Sequential, LatinSquare ...) placed on a member block or on the combinator, 2-3 repetitions, with and
without preamble (Repeat/Merge).
Oracles:
 (1) reference compositional validity (vp/ref.py compile_merge / compile_nest: a member block's constraint is checked in
     every repetition window of that block - its length, stepping by length minus preamble, so the window includes the
     preceding preamble trials - a combinator constraint over the whole sequence): every model of the compiled formula
     (capped) and every sequence returned by IterateSATGen / RandomGen is valid; when small, the exhausted multiset
     equals the reference enumeration;
 (2) metamorphic, library against itself: moving an AtMostKInARow / Exclude-free constraint from the member block to the
     combinator can only remove sequences (block-scoped solutions are a superset of combinator-scoped ones), and the two
     sets differ exactly when the reference finds a sequence valid under one placement and invalid under the other.
"""
import copy

from hypothesis import strategies as st

from .. import build as B
from .. import design as D
from .. import env, lib as L, ref as R, spec as S, strategies as G
from .c01 import check_all
from .c02 import compare


def moved_to_combinator(block):
    """same tree with the first movable member-block constraint moved to the combinator (None if there is none)"""
    b = copy.deepcopy(block)
    members = [b["block"]] if b["type"] == "repeat" else b["blocks"] if b["type"] == "merge" else [b["inner"]]
    for m in members:
        if m["type"] != "cross":
            continue
        for i, c in enumerate(m["constraints"]):
            if c["kind"] == "atmost":
                m["constraints"].pop(i)
                b["constraints"].append(c)
                return b
    return None


@st.composite
def skeleton_repeat(draw, c):
    """stratified over the dimensions the property is about: preamble x number of repetitions x constraint kind x
    placement x target factor - each cell is CONSTRUCTED, the rest is random"""
    nA = draw(st.sampled_from([2, 2, 3]))
    A = {"name": "A", "levels": [["a%d" % i, 1] for i in range(nA)]}
    B = {"name": "B", "levels": [["b%d" % i, 1] for i in range(draw(st.sampled_from([2, 3])))]}
    derived = []
    preamble = draw(st.booleans())
    crossing = ["A"]
    if preamble:
        derived.append({"name": "Y", "args": [draw(st.sampled_from(["A", "B"]))], "kind": draw(st.sampled_from(["transition", "transition", "window"])),
                        "width": 2, "stride": 1, "start": None, "levels": [["y0", 1], ["y1", 1]], "else_last": draw(st.booleans()),
                        "salt": draw(st.integers(0, 10 ** 6)), "overrides": {}})
        if draw(st.integers(0, 2)):
            G.same_different(derived[-1], [l[0] for l in (A if derived[-1]["args"][0] == "A" else B)["levels"]])
        crossing = draw(st.sampled_from([["Y"], ["Y"], ["A", "Y"]]))
    if draw(st.booleans()):
        derived.append({"name": "X", "args": ["A", "B"], "kind": "within", "width": 1, "stride": 1, "start": None,
                        "levels": [["x0", 1], ["x1", 1]], "else_last": False, "salt": draw(st.integers(0, 10 ** 6)), "overrides": {}})
    if draw(st.integers(0, 2)) == 0:
        # an uncrossed complex-window factor: its per-repetition variable lists are built by a separate code path
        derived.append({"name": "Z", "args": [draw(st.sampled_from(["A", "B"]))], "kind": "transition", "width": 2, "stride": 1, "start": None,
                        "levels": [["z0", 1], ["z1", 1]], "else_last": draw(st.booleans()), "salt": draw(st.integers(0, 10 ** 6)), "overrides": {}})
    names = ["A", "B"] + [d["name"] for d in derived]
    spec = {"factors": [A, B], "derived": derived}
    leaf = {"type": "cross", "design": names, "crossing": crossing, "constraints": [], "rcc": True}
    spec["block"] = leaf
    T1 = G.estimate_T(spec) or 2
    p1 = 1 if preamble else 0
    S1 = max(1, T1 - p1)
    reps = draw(st.sampled_from(["2", "3", "2+", "3+"]))
    k = p1 + {"2": 2 * S1, "3": 3 * S1, "2+": 2 * S1 + 1, "3+": 3 * S1 + 1}[reps]
    kind = draw(st.sampled_from(["pin", "pin", "atmost", "atmost", "atleast", "exactly_row", "exactly_k"]))
    target = draw(st.sampled_from(names))
    lv = [l[0] for l in S.levels_of(spec, target)]
    con = {"kind": kind, "factor": target, "level": draw(st.sampled_from(lv))}
    if kind == "pin":
        con["index"] = draw(st.sampled_from([0, 1, -1, -2, T1 - 1, -T1]))
    else:
        con["k"] = draw(st.sampled_from([1, 1, 2, 2, 3]))
    placement = draw(st.sampled_from(["member", "member", "combinator", "both", "both"]))
    cs = [{"kind": "min", "k": k}]
    if placement in ("member", "both"):
        leaf["constraints"].append(con)
    else:
        cs.append(con)
    if placement == "both":
        # both scopes at once, most of the time on the same factor and level (two encodings of one level's variables
        # with different geometry inside one formula)
        t2 = target if draw(st.integers(0, 3)) else draw(st.sampled_from(names))
        lv2 = [l[0] for l in S.levels_of(spec, t2)]
        l2 = con["level"] if (t2 == target and draw(st.integers(0, 3))) else draw(st.sampled_from(lv2))
        k2 = draw(st.sampled_from(["atmost", "atmost", "atleast", "exactly_k", "pin"]))
        con2 = {"kind": k2, "factor": t2, "level": l2}
        if k2 == "pin":
            con2["index"] = draw(st.sampled_from([0, 1, -1, -2]))
        else:
            con2["k"] = draw(st.sampled_from([1, 1, 2, 2, 3]))
        cs.append(con2)
    spec["block"] = {"type": "repeat", "block": leaf, "constraints": cs}
    spec["skeleton"] = {"preamble": preamble, "repetitions": reps, "constraint": kind, "placement": placement}
    return spec


def c26_cases(c):
    return st.one_of(G.guarded(skeleton_repeat(c)), G.design_spec(c))


def judge(ctx):
    spec = ctx.spec
    t = spec["block"]["type"]
    if t not in ("repeat", "merge", "nest"):
        raise D.Skip("not-a-combinator")
    blk = ctx.block
    ctx.require_unambiguous(allow=("rcc-with-removal", "empty-crossing", "all-levels-excluded"))
    r = ctx.ref
    if r.trial_count() is None:
        raise D.Skip("trial-count-unspecified")
    if ctx.T_lib != r.trial_count():
        ctx.fail("trial-count", "%s block has %d trials, the documented composition gives %d" % (t, ctx.T_lib, r.trial_count()))
        return
    ctx.require_small()
    member_cons = [c for x in S.leaf_blocks(spec["block"]) for c in x["constraints"] if c["kind"] not in ("min", "exclude")]
    comb_cons = [c for c in spec["block"]["constraints"] if c["kind"] != "min"]
    reps = 0
    for c, windows in r.C["checks"]:
        reps = max(reps, len(windows))
    sk = spec.get("skeleton")
    if sk:
        ctx.label("skeleton", "sk-preamble=%s" % sk["preamble"], "sk-reps=%s" % sk["repetitions"], "sk-%s-%s" % (sk["placement"], sk["constraint"]))
    ctx.label("combinator:" + t, "member-constraints=%d" % len(member_cons), "combinator-constraints=%d" % len(comb_cons),
              "repetitions=%s" % (reps if reps < 4 else "4+"))
    models, complete = ctx.sat_all(cap=ctx.lim("max_models"))
    if not check_all(ctx, models, "a model of build_cnf(block)"):
        return
    n_ret = len(models)
    for g in ("IterateSATGen", "RandomGen"):
        try:
            res, _ = L.synth(ctx.fresh_built().block, 3, g, D.lib_seed(spec))
        except env.CaseTimeout:
            raise
        except Exception:
            ctx.label("lib-exception:" + g)
            continue
        res = [L.visible(e) for e in res]
        n_ret += len(res)
        if not check_all(ctx, res, g):
            return
    want = None
    if complete:
        try:
            want = D.ref_counter(ctx.ref_enum())
            ctx.label("exhausted")
            if not compare(ctx, D.exps_counter(models), want, "formula"):
                return
        except D.Skip:
            ctx.label("not-enumerated")
    # metamorphic: member-scoped vs combinator-scoped
    distinguishing = False
    alt = moved_to_combinator(spec["block"])
    if alt is not None and complete:
        aspec = {"factors": spec["factors"], "derived": spec["derived"], "block": alt}
        try:
            ab = B.build(aspec)
            m2, c2 = ctx.lib_call("sat-moved", lambda: L.exhaust_sat_inprocess(ab.block, ctx.lim("max_models")))
        except B.BuildRejected:
            m2, c2 = None, False
        if c2:
            ctx.label("scope-metamorphic")
            s_block, s_comb = set(D.exps_counter(models)), set(D.exps_counter(m2))
            if not s_comb <= s_block:
                ex = sorted(s_comb - s_block)[0]
                ctx.fail("scope:combinator-not-subset", "with the AtMostKInARow on the combinator %r is a solution, with it on the member block it is not" % dict(ex))
                return
            try:
                ra = R.Ref(aspec)
                if not ra.ambiguous and want is not None:
                    wa = D.ref_counter(ra.enumerate(cap=ctx.lim("max_seqs"), node_cap=ctx.lim("node_cap")) or {})
                    if wa and (set(wa) != set(want)):
                        distinguishing = True
                        if s_comb == s_block:
                            ctx.fail("scope:placements-not-distinguished", "the reference distinguishes the two placements (%d vs %d sequences), the library returns the same %d"
                                     % (len(want), len(wa), len(s_block)))
                            return
            except (R.Unsupported, TypeError):
                pass
    if distinguishing:
        ctx.label("placement-distinguishes")
    ctx.nontrivial = n_ret >= 1 and bool(member_cons or comb_cons) and reps >= 2
    ctx.sample = {"block": spec["block"], "sequences_judged": n_ret}


CFG = G.cfg(blocks=("repeat", "repeat", "merge", "nest"), max_levels=3, max_factors=3, max_derived=1, kinds=("within", "transition"),
            explicit_start=False, max_constraints=1, max_crossing=2, p_weight=0.12, max_leaf_constraints=1, min_leaf_constraints=1,
            kind_weight={"exclude": 1, "atmost": 4, "exactly_k": 2, "pin": 2, "atleast": 2},
            constraints=("exclude", "pin", "atmost", "atleast", "exactly_row", "exactly_k", "sequential", "latin", "min"))
P = D.DesignProperty(
    "C26", judge,
    rule=("case = generated Repeat / Merge / Nest over CrossBlocks with constraints on member blocks and/or on the combinator; non-trivial = at "
          "least one sequence judged, a non-Exclude constraint present and at least 2 repetition windows; class placement-distinguishes = the "
          "reference finds the member-scoped and combinator-scoped readings of an AtMostKInARow different; distinct = distinct spec JSON"),
    cfg_quick=CFG, n_quick=150, n_thorough=600, case_limit=(12, 120), strategy=c26_cases,
    limits={"max_T": {"quick": 9, "thorough": 13}, "max_models": {"quick": 800, "thorough": 8000}, "max_seqs": {"quick": 800, "thorough": 8000},
            "node_cap": {"quick": 200000, "thorough": 2000000}},
    assumptions=["vp/ref.py compile_merge/compile_nest implement the documented scoping (self-tested on Repeat leftovers and two Nest designs)",
                 "count-type constraints on a truncated final repetition, constraints on sustained factors and Excludes acting across members are ambiguous and excluded"])
P.export(globals())
