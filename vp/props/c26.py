"""C26 - block constraints apply per repetition; combinator constraints apply globally.

Generator: Repeat / Merge / Nest over CrossBlocks, with constraints (Pin incl. negative, ExactlyK, AtMost/AtLeast/
ExactlyKInARow, Sequential, LatinSquare ...) placed on a member block or on the combinator, 2-3 repetitions, with and
without preamble (Repeat/Merge).
Oracles:
 (1) reference compositional validity (vp/ref.py compile_merge / compile_nest: a member block's constraint is checked in
     every repetition window of that block - its length, stepping by length minus preamble, so the window includes the
     preceding preamble trials - a combinator constraint over the whole sequence): every model of the compiled formula
     (capped) and every sequence returned by IterateSATGen / RandomGen is valid; when small, the exhausted multiset
     equals the reference enumeration;
 (2) metamorphic, library against itself: moving an AtMostKInARow / Exclude-free constraint from the member block to the
     combinator can only remove sequences (block-scoped solutions are a superset of combinator-scoped ones), and the two
     sets differ exactly when the reference finds a sequence valid under one placement and invalid under the other.
"""
import copy

from .. import build as B
from .. import design as D
from .. import env, lib as L, ref as R, spec as S, strategies as G
from .c01 import check_all
from .c02 import compare


def moved_to_combinator(block):
    """same tree with the first movable member-block constraint moved to the combinator (None if there is none)"""
    b = copy.deepcopy(block)
    members = [b["block"]] if b["type"] == "repeat" else b["blocks"] if b["type"] == "merge" else [b["inner"]]
    for m in members:
        if m["type"] != "cross":
            continue
        for i, c in enumerate(m["constraints"]):
            if c["kind"] == "atmost":
                m["constraints"].pop(i)
                b["constraints"].append(c)
                return b
    return None


def judge(ctx):
    spec = ctx.spec
    t = spec["block"]["type"]
    if t not in ("repeat", "merge", "nest"):
        raise D.Skip("not-a-combinator")
    blk = ctx.block
    ctx.require_unambiguous(allow=("rcc-with-removal", "empty-crossing", "all-levels-excluded"))
    r = ctx.ref
    if r.trial_count() is None:
        raise D.Skip("trial-count-unspecified")
    if ctx.T_lib != r.trial_count():
        ctx.fail("trial-count", "%s block has %d trials, the documented composition gives %d" % (t, ctx.T_lib, r.trial_count()))
        return
    ctx.require_small()
    member_cons = [c for x in S.leaf_blocks(spec["block"]) for c in x["constraints"] if c["kind"] not in ("min", "exclude")]
    comb_cons = [c for c in spec["block"]["constraints"] if c["kind"] != "min"]
    reps = 0
    for c, windows in r.C["checks"]:
        reps = max(reps, len(windows))
    ctx.label("combinator:" + t, "member-constraints=%d" % len(member_cons), "combinator-constraints=%d" % len(comb_cons),
              "repetitions=%s" % (reps if reps < 4 else "4+"))
    models, complete = ctx.sat_all(cap=ctx.lim("max_models"))
    if not check_all(ctx, models, "a model of build_cnf(block)"):
        return
    n_ret = len(models)
    for g in ("IterateSATGen", "RandomGen"):
        try:
            res, _ = L.synth(ctx.fresh_built().block, 3, g, D.lib_seed(spec))
        except env.CaseTimeout:
            raise
        except Exception:
            ctx.label("lib-exception:" + g)
            continue
        res = [L.visible(e) for e in res]
        n_ret += len(res)
        if not check_all(ctx, res, g):
            return
    want = None
    if complete:
        try:
            want = D.ref_counter(ctx.ref_enum())
            ctx.label("exhausted")
            if not compare(ctx, D.exps_counter(models), want, "formula"):
                return
        except D.Skip:
            ctx.label("not-enumerated")
    # metamorphic: member-scoped vs combinator-scoped
    distinguishing = False
    alt = moved_to_combinator(spec["block"])
    if alt is not None and complete:
        aspec = {"factors": spec["factors"], "derived": spec["derived"], "block": alt}
        try:
            ab = B.build(aspec)
            m2, c2 = ctx.lib_call("sat-moved", lambda: L.exhaust_sat_inprocess(ab.block, ctx.lim("max_models")))
        except B.BuildRejected:
            m2, c2 = None, False
        if c2:
            ctx.label("scope-metamorphic")
            s_block, s_comb = set(D.exps_counter(models)), set(D.exps_counter(m2))
            if not s_comb <= s_block:
                ex = sorted(s_comb - s_block)[0]
                ctx.fail("scope:combinator-not-subset", "with the AtMostKInARow on the combinator %r is a solution, with it on the member block it is not" % dict(ex))
                return
            try:
                ra = R.Ref(aspec)
                if not ra.ambiguous and want is not None:
                    wa = D.ref_counter(ra.enumerate(cap=ctx.lim("max_seqs"), node_cap=ctx.lim("node_cap")) or {})
                    if wa and (set(wa) != set(want)):
                        distinguishing = True
                        if s_comb == s_block:
                            ctx.fail("scope:placements-not-distinguished", "the reference distinguishes the two placements (%d vs %d sequences), the library returns the same %d"
                                     % (len(want), len(wa), len(s_block)))
                            return
            except (R.Unsupported, TypeError):
                pass
    if distinguishing:
        ctx.label("placement-distinguishes")
    ctx.nontrivial = n_ret >= 1 and bool(member_cons or comb_cons) and reps >= 2
    ctx.sample = {"block": spec["block"], "sequences_judged": n_ret}


CFG = G.cfg(blocks=("repeat", "repeat", "merge", "nest"), max_levels=3, max_factors=3, max_derived=1, kinds=("within", "transition"),
            explicit_start=False, max_constraints=1, max_crossing=2, p_weight=0.12, max_leaf_constraints=1, min_leaf_constraints=1,
            kind_weight={"exclude": 1, "atmost": 4, "exactly_k": 2, "pin": 2, "atleast": 2},
            constraints=("exclude", "pin", "atmost", "atleast", "exactly_row", "exactly_k", "sequential", "latin", "min"))
P = D.DesignProperty(
    "C26", judge,
    rule=("case = generated Repeat / Merge / Nest over CrossBlocks with constraints on member blocks and/or on the combinator; non-trivial = at "
          "least one sequence judged, a non-Exclude constraint present and at least 2 repetition windows; class placement-distinguishes = the "
          "reference finds the member-scoped and combinator-scoped readings of an AtMostKInARow different; distinct = distinct spec JSON"),
    cfg_quick=CFG, n_quick=150, n_thorough=3000, case_limit=(20, 120),
    limits={"max_T": {"quick": 8, "thorough": 12}, "max_models": {"quick": 800, "thorough": 8000}, "max_seqs": {"quick": 800, "thorough": 8000},
            "node_cap": {"quick": 200000, "thorough": 2000000}},
    assumptions=["vp/ref.py compile_merge/compile_nest implement the documented scoping (self-tested on Repeat leftovers and two Nest designs)",
                 "count-type constraints on a truncated final repetition, constraints on sustained factors and Excludes acting across members are ambiguous and excluded"])
P.export(globals())
