"""C19 - a block stays usable and unchanged across library calls.

Generated HISTORIES: a block (reference domain, with or without continuous factors) and a Hypothesis-drawn list of 2-7
operations out of synthesize_trials(strategy, n), print_experiments, tabulate_experiments, save_experiments_csv,
experiments_to_tuples, experiments_to_dicts, sample_mismatch_experiment - the arguments of the non-synthesizing calls are
the experiments returned so far.  The whole history is one shrinkable value.
Invariant after EVERY step: a structural snapshot of the block (names and level names of design / orig_design / act_design,
crossings, continuous factors, trial count, number of constraints, recorded errors) is unchanged.  Every synthesize step
must return without raising, its sequences must be valid (reference; continuous columns: one number per trial) and have the
same set of columns as the first synthesize call.
"""
import os

from hypothesis import strategies as st

from .. import cont
from .. import design as D
from .. import env, lib as L, strategies as G

STRATS = ["IterateSATGen", "RandomGen", "CMSGen", "IterateGen"]
OTHER = ["print", "tabulate", "csv", "tuples", "dicts", "mismatch"]


@st.composite
def cases(draw, c):
    spec = draw(G.design_spec(c))
    if draw(st.booleans()):
        basics = [f["name"] for f in spec["factors"] if f["name"] in spec["block"]["design"]]
        cs, cc = draw(cont.continuous_specs(basics, max_n=2))
        spec["continuous"], spec["ccons"] = cs, cc
    ops = [["synth", draw(st.sampled_from(STRATS)), draw(st.integers(1, 3))]]
    for _ in range(draw(st.integers(1, 6))):
        if draw(st.integers(0, 2)) == 0:
            ops.append(["synth", draw(st.sampled_from(STRATS)), draw(st.integers(1, 3))])
        else:
            ops.append([draw(st.sampled_from(OTHER))])
    if ops[-1][0] != "synth":
        ops.append(["synth", draw(st.sampled_from(STRATS)), draw(st.integers(1, 2))])
    spec["ops"] = ops
    return spec


def snapshot(blk):
    def fl(fs):
        return tuple((str(f.name), tuple(str(getattr(l, "name", l)) for l in f.levels)) for f in fs)
    with env.quiet():
        return {"design": fl(blk.design), "orig_design": fl(blk.orig_design), "act_design": fl(blk.act_design),
                "crossings": tuple(tuple(str(f.name) for f in c) for c in blk.crossings),
                "continuous": tuple(str(f.name) for f in getattr(blk, "continuous_factors", [])),
                "T": blk.trials_per_sample(), "constraints": len(blk.constraints), "orig_constraints": len(blk.orig_constraints),
                "vars": blk.variables_per_sample()}


def judge(ctx):
    import sweetpea as sp
    spec = ctx.spec
    ops = spec.get("ops")
    if not ops:
        raise D.Skip("no-history")
    blk = ctx.block
    ctx.require_unambiguous(allow=("rcc-with-removal", "empty-crossing", "all-levels-excluded"))
    ctx.require_small()
    r = ctx.ref
    cnames = [cs["name"] for cs in spec.get("continuous", [])]
    snap0 = snapshot(blk)
    exps = []
    first_keys = None
    n_synth = 0
    user = [n for n in r.C["design"]] + cnames
    for i, op in enumerate(ops):
        kind = op[0]
        try:
            if kind == "synth":
                res, _ = L.synth(blk, op[2], op[1], D.lib_seed(spec) + i)
                n_synth += 1
            else:
                res = None
                with env.quiet():
                    if kind == "print":
                        sp.print_experiments(blk, exps)
                    elif kind == "tabulate":
                        if exps and len(blk.crossings) == 1:
                            sp.tabulate_experiments(blk, exps)
                    elif kind == "csv":
                        sp.save_experiments_csv(blk, exps, os.path.join(os.getcwd(), "h%d" % i))
                    elif kind == "tuples":
                        sp.experiments_to_tuples(blk, exps)
                    elif kind == "dicts":
                        sp.experiments_to_dicts(blk, exps)
                    elif kind == "mismatch":
                        for e in exps[:2]:
                            sp.sample_mismatch_experiment(blk, {k: v for k, v in e.items() if k not in cnames})
        except env.CaseTimeout:
            raise
        except Exception as e:
            if kind == "synth" and n_synth == 0:
                raise D.Skip("lib-exception:first-synthesize:%s" % env.exc_bucket(e))     # C08's business
            if kind == "synth":
                ctx.fail("later-synthesize-raises", "step %d %r after %r raised %s: %s" % (i, op, ops[:i], type(e).__name__, str(e)[:200]))
                return
            ctx.label("other-call-raised:" + kind)          # the property is about the block, not about these calls' own domain
            res = None
        snap = snapshot(blk)
        if snap != snap0:
            diff = [k for k in snap0 if snap[k] != snap0[k]]
            ctx.fail("block-changed:" + ",".join(diff), "after step %d %r the block's %s changed: %r -> %r"
                     % (i, op, diff[0], snap0[diff[0]], snap[diff[0]]))
            return
        if kind == "synth":
            res = [L.visible(e) for e in res]
            for e in res:
                keys = sorted(str(k) for k in e)
                if first_keys is None:
                    first_keys = keys
                if keys != first_keys:
                    ctx.fail("columns-changed", "step %d %r returned columns %r, the first call returned %r" % (i, op, keys, first_keys))
                    return
                seq = {k: v for k, v in D.exp_to_seq(e).items() if k not in cnames}
                ok, why = r.is_valid(seq)
                if not ok:
                    ctx.fail("invalid-after-history", "step %d %r returned %r: %s" % (i, op, seq, why))
                    return
                for cn in cnames:
                    col = e.get(cn)
                    if col is None or len(col) != snap0["T"] or any(not isinstance(v, (int, float)) for v in col):
                        ctx.fail("continuous-column-after-history", "step %d %r: column %s is %r" % (i, op, cn, col))
                        return
            exps = (exps + res)[-4:]
    later = any(o[0] == "synth" for o in ops[1:]) and any(o[0] != "synth" for o in ops)
    ctx.nontrivial = later and bool(exps)
    if cnames:
        ctx.label("has-continuous")
    ctx.sample = {"ops": ops, "block": spec["block"], "continuous": spec.get("continuous", [])}


CFG = G.cfg(max_factors=3, max_derived=1, max_constraints=2)
P = D.DesignProperty(
    "C19", judge,
    rule=("case = (design spec, optional continuous factors, history of 3-8 library calls starting and ending with synthesize_trials); the "
          "block snapshot is compared after every step; non-trivial = the history contains a synthesize after at least one other kind of "
          "call and some experiment was returned; distinct = distinct case JSON"),
    cfg_quick=CFG, n_quick=50, n_thorough=500, case_limit=(25, 120), strategy=cases,
    limits={"max_T": {"quick": 8, "thorough": 12}},
    assumptions=["vp/ref.py implements the documented semantics (validity of the discrete part)",
                 "an exception raised by a non-synthesizing call is recorded as a class, not judged: the property concerns the block afterwards"])
P.export(globals())
