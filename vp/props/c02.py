"""C02 - exhausting IterateSATGen yields exactly the valid sequences.

Oracle: vp/ref.py enumerates the valid sequences of the documented semantics with multiplicities (copies of weighted
levels of factors outside the crossing are distinct solutions).  The library side is exhausted twice: all projected
models of the compiled formula decoded like the sampler decodes them, and - when the set is small - the real
`synthesize_trials(block, more_than_exist, IterateSATGen)` loop.  The multisets must be equal; an unsatisfiable design
must yield [].
"""
from .. import design as D
from .. import strategies as G


def features_present(spec):
    b = spec["block"]
    return bool(spec["derived"] or [c for c in b.get("constraints", [])] or
                any(l[1] > 1 for f in spec["factors"] for l in f["levels"]))


def compare(ctx, got, want, side):
    """got, want: Counters over canonical sequences"""
    if got == want:
        return True
    missing = set(want) - set(got)
    extra = set(got) - set(want)
    if missing and not extra:
        kind = "missing"
    elif extra and not missing:
        kind = "extra"
    elif extra and missing:
        kind = "missing+extra"
    else:
        kind = "multiplicity"
    ex = next(iter(missing or extra or [k for k in want if got[k] != want[k]]))
    why = ""
    if extra:
        ok, why = ctx.ref.is_valid(D.exp_to_seq(dict(next(iter(extra)))))
    ctx.fail("%s-%s" % (side, kind), "%s: %d sequences (%d distinct), reference: %d (%d distinct); e.g. %r %s"
             % (side, sum(got.values()), len(got), sum(want.values()), len(want), dict(ex), why or ""))
    return False


def judge(ctx):
    spec = ctx.spec
    blk = ctx.block
    ctx.require_unambiguous(allow=("rcc-with-removal", "empty-crossing", "all-levels-excluded"))
    ctx.require_small()
    want = D.ref_counter(ctx.ref_enum())
    total = sum(want.values())
    if total > ctx.lim("max_seqs"):
        raise D.Skip("too-large:sequences")
    got_list, complete = ctx.sat_all(cap=ctx.lim("max_models"))
    if not complete:
        raise D.Skip("too-large:models")
    got = D.exps_counter(got_list)
    ctx.nontrivial = (len(want) >= 2 and features_present(spec))
    if not want:
        ctx.label("unsat")
        ctx.nontrivial = features_present(spec) and not ctx.ref.C["unspecified_T"]
    ctx.sample = {"spec": spec, "valid_sequences": total}
    ok = compare(ctx, got, want, "formula")
    if ok and total <= ctx.lim("real_loop"):
        real, _ = ctx.synth("IterateSATGen", total + 3, block=ctx.fresh_built().block)
        ctx.label("real-loop")
        compare(ctx, D.exps_counter(real), want, "iterate")


CFG = G.cfg(blocks=("cross", "cross", "multi", "repeat", "merge", "nest"))
P = D.DesignProperty(
    "C02", judge,
    rule=("case = generated design spec in the reference domain (accepted by the constructor, documentation unambiguous); the "
          "formula's projected models and, for small sets, the real IterateSATGen loop are exhausted and compared as multisets "
          "with the reference enumeration; non-trivial = at least 2 valid sequences (or an unsatisfiable design whose trial count is "
          "defined) and a derived factor, constraint or weight is present; distinct = distinct spec JSON"),
    cfg_quick=CFG, n_quick=60, n_thorough=700, case_limit=(15, 120),
    limits={"max_T": {"quick": 7, "thorough": 9}, "max_seqs": {"quick": 300, "thorough": 3000},
            "max_models": {"quick": 1500, "thorough": 12000}, "real_loop": {"quick": 30, "thorough": 120}},
    assumptions=["vp/ref.py implements the documented semantics (self-test against the maintainers' expected counts)",
                 "projected models of build_cnf(block) decoded with Gen.decode/add_implied_levels are what IterateSATGen iterates over (cross-checked by the real loop on small sets)"])
P.export(globals())
