"""C25 - Nest holds outer levels fixed over each inner run.

Generator: Nest(outer, inner) over CrossBlocks with disjoint crossings, inner or outer possibly itself a Nest (depth 2),
inner constraints of every kind, no preamble trials (the reference refuses Nest with preambles: see DESIGN.md 4.4).
Oracles:
 (1) structural, written directly from the property text: the sequence splits into T_outer groups of T_inner trials; the
     outer block's crossed factors are constant within each group; the group-level sequence satisfies the outer crossing;
     each group satisfies the inner crossing and the inner block's constraints; T = T_outer * T_inner;
 (2) the reference model (compositional validity, vp/ref.py compile_nest): every model of the compiled formula (capped)
     and every sequence returned by IterateSATGen / RandomGen / CMSGen is valid, and when the design is small the
     exhausted multiset equals the reference enumeration;
 (3) associativity: Nest(Nest(a, b), c) and Nest(a, Nest(b, c)) have equal trial counts and equal exhausted multisets.
"""
import copy
from collections import Counter

from .. import build as B
from .. import design as D
from .. import env, lib as L, ref as R, spec as S, strategies as G
from .c01 import check_all
from .c02 import compare


def sub_ref(spec, block):
    return R.Ref({"factors": spec["factors"], "derived": spec["derived"], "block": block})


def structural(ctx, seq, spec):
    """property text, checked without the flat reference: returns a reason or None"""
    b = spec["block"]
    ro, ri = sub_ref(spec, b["outer"]), sub_ref(spec, b["inner"])
    To, Ti = ro.trial_count(), ri.trial_count()
    if To is None or Ti is None:
        return None
    T = To * Ti
    for f, col in seq.items():
        if len(col) != T:
            return "column %s has %d entries, expected %d x %d" % (f, len(col), To, Ti)
    outer_crossed = sorted({f for i in ro.C["crossings"] for f in i["factors"]})
    groups = []
    for g in range(To):
        vals = [tuple(seq[f][t] for f in outer_crossed) for t in range(g * Ti, (g + 1) * Ti)]
        if len(set(vals)) != 1:
            return "outer crossed factors %r change inside group %d: %r" % (outer_crossed, g, vals)
        groups.append(vals[0])
    # outer crossing over the sequence of groups (leaf outer only: full chunks, each combination weight*w times)
    if b["outer"]["type"] == "cross" and len(ro.C["crossings"]) == 1:
        i = ro.C["crossings"][0]
        order = [outer_crossed.index(f) for f in i["factors"]]
        cnt = Counter(tuple(gv[k] for k in order) for gv in groups)
        if To == i["chunk"]:
            for c, w in i["poss"].items():
                if cnt.get(c, 0) != w * i["w"]:
                    return "outer combination %r occurs in %d groups, expected %d" % (c, cnt.get(c, 0), w * i["w"])
    # every group is a valid inner sequence (inner factors that do not depend on anything outside the inner design)
    inner_design = ri.C["design"]
    closed = all((n in ri.basic) or set(ri.derived[n]["args"]) <= set(inner_design) for n in inner_design)
    if closed and not any(ri.is_complex(n) for n in inner_design if n in ri.derived):
        for g in range(To):
            sub = {f: seq[f][g * Ti:(g + 1) * Ti] for f in inner_design}
            ok, why = ri.is_valid(sub)
            if not ok:
                return "group %d is not a valid inner sequence: %s" % (g, why)
    return None


def reassociate(b):
    """Nest(Nest(a,b),c) <-> Nest(a,Nest(b,c)), or None"""
    if b["type"] != "nest" or b["constraints"]:
        return None
    o, i = b["outer"], b["inner"]
    if o["type"] == "nest" and not o["constraints"] and i["type"] != "nest":
        return {"type": "nest", "outer": o["outer"], "inner": {"type": "nest", "outer": o["inner"], "inner": i, "constraints": [], "alignment": None},
                "constraints": [], "alignment": None}
    if i["type"] == "nest" and not i["constraints"] and o["type"] != "nest":
        return {"type": "nest", "outer": {"type": "nest", "outer": o, "inner": i["outer"], "constraints": [], "alignment": None}, "inner": i["inner"],
                "constraints": [], "alignment": None}
    return None


def judge(ctx):
    spec = ctx.spec
    if spec["block"]["type"] != "nest":
        raise D.Skip("not-a-nest")
    blk = ctx.block
    ctx.require_unambiguous(allow=("rcc-with-removal", "empty-crossing", "all-levels-excluded"))
    r = ctx.ref
    if r.trial_count() is None:
        raise D.Skip("trial-count-unspecified")
    depth2 = spec["block"]["outer"]["type"] == "nest" or spec["block"]["inner"]["type"] == "nest"
    ctx.label("depth=%d" % (2 if depth2 else 1))
    if ctx.T_lib != r.trial_count():
        ctx.fail("trial-count", "Nest has %d trials, outer x inner gives %d" % (ctx.T_lib, r.trial_count()))
        return
    ctx.require_small()
    models, complete = ctx.sat_all(cap=ctx.lim("max_models"))
    if not check_all(ctx, models, "a model of build_cnf(block)"):
        return
    for e in models[:200]:
        why = structural(ctx, D.exp_to_seq(e), spec)
        if why:
            ctx.fail("structure", "%r: %s" % (D.exp_to_seq(e), why))
            return
    n_ret = len(models)
    for g in ("IterateSATGen", "RandomGen", "CMSGen"):
        try:
            res, _ = L.synth(ctx.fresh_built().block, 3, g, D.lib_seed(spec))
        except env.CaseTimeout:
            raise
        except Exception:
            ctx.label("lib-exception:" + g)
            continue
        res = [L.visible(e) for e in res]
        n_ret += len(res)
        if not check_all(ctx, res, g):
            return
        for e in res:
            why = structural(ctx, D.exp_to_seq(e), spec)
            if why:
                ctx.fail("structure:" + g, "%r: %s" % (D.exp_to_seq(e), why))
                return
    if complete:
        try:
            want = D.ref_counter(ctx.ref_enum())
            ctx.label("exhausted")
            if not compare(ctx, D.exps_counter(models), want, "formula"):
                return
        except D.Skip:
            ctx.label("not-enumerated")
    alt = reassociate(spec["block"])
    if alt is not None and complete:
        try:
            tb = B.build({"factors": spec["factors"], "derived": spec["derived"], "block": alt})
        except B.BuildRejected as e:
            ctx.fail("associativity:accept", "the re-associated Nest is refused: %s" % e)
            return
        with env.quiet():
            T2 = tb.block.trials_per_sample()
        if T2 != ctx.T_lib:
            ctx.fail("associativity:trial-count", "%d trials vs %d for the re-associated Nest" % (ctx.T_lib, T2))
            return
        m2, c2 = ctx.lib_call("sat-reassoc", lambda: L.exhaust_sat_inprocess(tb.block, ctx.lim("max_models")))
        if c2:
            ctx.label("associativity-compared")
            if D.exps_counter(models) != D.exps_counter(m2):
                ctx.fail("associativity:sequences", "%d sequences vs %d for the re-associated Nest" % (len(models), len(m2)))
                return
    outer_S = max([i["S"] for i in sub_ref(spec, spec["block"]["outer"]).C["crossings"]] + [1])
    ctx.nontrivial = n_ret >= 1 and outer_S >= 2 and (sub_ref(spec, spec["block"]["inner"]).trial_count() or 0) >= 2
    ctx.sample = {"block": spec["block"], "sequences_judged": n_ret}


CFG = G.cfg(blocks=("nest",), nest_depth=2, max_levels=3, max_factors=3, max_derived=1, kinds=("within",), explicit_start=False,
            max_constraints=1, max_crossing=1, p_weight=0.0, kind_weight={"exclude": 1, "atmost": 2, "exactly_k": 2, "pin": 2},
            constraints=("exclude", "pin", "atmost", "atleast", "exactly_row", "exactly_k", "sequential"))
P = D.DesignProperty(
    "C25", judge,
    rule=("case = generated Nest(outer, inner) over CrossBlocks with disjoint crossings (depth 2 in a third of the cases), inner constraints of all "
          "kinds; non-trivial = at least one sequence judged, outer crossing size >= 2 and inner length >= 2; distinct = distinct spec JSON"),
    cfg_quick=CFG, n_quick=100, n_thorough=600, case_limit=(12, 120),
    limits={"max_T": {"quick": 8, "thorough": 12}, "max_models": {"quick": 600, "thorough": 6000}, "max_seqs": {"quick": 600, "thorough": 6000},
            "node_cap": {"quick": 200000, "thorough": 2000000}},
    assumptions=["no preamble trials (within-trial derived factors only); outer constraints other than Exclude are ambiguous in the documentation and excluded",
                 "vp/ref.py compile_nest implements the documented composition (self-tested on the two Nest designs of acceptance/test_nest_block.py)"])
P.export(globals())
