"""C18 - reusing factor and constraint objects across blocks does not change meaning.

Generated construction histories: a pool of factor objects and of constraint objects, and an ordered list of 2-4 blocks
built from pool members - CrossBlocks with different crossings (hence different lengths and geometry), then 0-2
Repeat / Merge / Nest blocks over earlier blocks (the same block object may be used by several combinators).  All blocks are constructed first (so later constructions can disturb earlier
blocks), then EVERY block is compared with a twin built from the same description with fresh, unshared objects:
equal trial count, equal exhausted multiset of sequences (compiled formula), equal mismatch verdicts on a fixed candidate
set (the twin's sequences and trial-swapped variants).  Purely differential, no reference model.
"""
import copy
import random

from hypothesis import strategies as st

from .. import build as B
from .. import design as D
from .. import env, lib as L, spec as S, strategies as G

POOL_KINDS = ("atmost", "atleast", "exactly_k", "pin", "exactly_row", "exclude", "min")


@st.composite
def cases(draw, c):
    factors = draw(G.basic_factors(c))
    derived = draw(G.derived_factors(c, factors))
    spec = {"factors": factors, "derived": derived}
    names = [f["name"] for f in factors] + [d["name"] for d in derived]
    cand = G.crossable(factors, derived)
    pool = []
    tmp = dict(spec, block={"type": "cross", "design": names, "crossing": cand[:1], "constraints": [], "rcc": False})
    T0 = G.estimate_T(tmp) or 3
    for _ in range(draw(st.integers(1, 3))):
        pool.append(draw(G.constraint(c, tmp, T0, names, kinds=POOL_KINDS)))
    blocks = []
    n_leaf = draw(st.integers(2, 3))
    for i in range(n_leaf):
        k = draw(st.integers(1, min(2, len(cand))))
        crossing = list(draw(st.permutations(cand))[:k])
        refs = draw(st.lists(st.integers(0, len(pool) - 1), min_size=1, max_size=len(pool), unique=True))
        blocks.append({"type": "cross", "design": names, "crossing": crossing, "constraints": [{"ref": r} for r in refs], "rcc": False})
    for _ in range(draw(st.sampled_from([0, 1, 1, 2, 2]))):        # combinators over EARLIER blocks; a block may be reused by several
        kind = draw(st.sampled_from(["repeat", "merge", "nest", "nest"]))
        i = draw(st.integers(0, n_leaf - 1))
        j = draw(st.integers(0, n_leaf - 1))
        refs = [{"ref": r} for r in draw(st.lists(st.integers(0, len(pool) - 1), min_size=0, max_size=1))]
        if kind == "repeat":
            blocks.append({"type": "repeat", "of": i, "constraints": ([{"kind": "min", "k": draw(st.sampled_from([4, 6, 8]))}] if draw(st.booleans()) else []) + refs})
        elif kind == "merge" and i != j:
            blocks.append({"type": "merge", "of": [i, j], "constraints": refs, "mode": draw(st.sampled_from(["repeat", "weight"])), "alignment": None})
        elif i != j:
            blocks.append({"type": "nest", "outer": i, "inner": j, "constraints": refs, "alignment": None})
    spec["pool"] = pool
    spec["blocks"] = blocks
    spec["block"] = blocks[0] if blocks[0]["type"] == "cross" else None
    spec["aux"] = draw(st.integers(0, 2 ** 30))
    return spec


def resolve(spec, idx):
    """self-contained block tree for block idx with the pool constraints inlined (the twin's description)"""
    b = spec["blocks"][idx]
    cons = [copy.deepcopy(spec["pool"][c["ref"]]) if "ref" in c else copy.deepcopy(c) for c in b["constraints"]]
    if b["type"] == "cross":
        return dict(copy.deepcopy(b), constraints=cons)
    if b["type"] == "repeat":
        return {"type": "repeat", "block": resolve(spec, b["of"]), "constraints": cons}
    if b["type"] == "merge":
        return {"type": "merge", "blocks": [resolve(spec, k) for k in b["of"]], "constraints": cons, "mode": b["mode"], "alignment": b["alignment"]}
    return {"type": "nest", "outer": resolve(spec, b["outer"]), "inner": resolve(spec, b["inner"]), "constraints": cons, "alignment": b["alignment"]}


def build_shared(spec):
    """all blocks from ONE set of factor and constraint objects, in the generated order"""
    import sweetpea as sp
    Bt = B.Built(spec)
    B.make_factors(spec, Bt)
    pool_objs = {}

    def cons_objs(cs):
        out = []
        for c in cs:
            if "ref" in c:
                if c["ref"] not in pool_objs:
                    pool_objs[c["ref"]] = B.make_constraint(spec["pool"][c["ref"]], Bt)
                out.append(pool_objs[c["ref"]])
            else:
                out.append(B.make_constraint(c, Bt))
        return out
    blocks = []
    for b in spec["blocks"]:
        cs = cons_objs(b["constraints"])
        t = b["type"]
        if t == "cross":
            blk = sp.CrossBlock([Bt.F[n] for n in b["design"]], [Bt.F[n] for n in b["crossing"]], cs, b["rcc"])
        elif t == "repeat":
            blk = sp.Repeat(blocks[b["of"]], cs)
        elif t == "merge":
            # without constraints the library's default argument is used, as a user would
            blk = (sp.Merge([blocks[k] for k in b["of"]], cs, B._mode(b["mode"]), B._align(b["alignment"])) if cs else
                   sp.Merge([blocks[k] for k in b["of"]], mode=B._mode(b["mode"]), alignment=B._align(b["alignment"])))
        else:
            blk = (sp.Nest(blocks[b["outer"]], blocks[b["inner"]], cs, B._align(b["alignment"])) if cs else
                   sp.Nest(blocks[b["outer"]], blocks[b["inner"]], alignment=B._align(b["alignment"])))
        blocks.append(blk)
    return blocks


def judge(ctx):
    import sweetpea as sp
    spec = ctx.spec
    if not spec.get("blocks") or not spec.get("pool"):
        raise D.Skip("no-history")
    try:
        refs_ok = all(0 <= c["ref"] < len(spec["pool"]) for b in spec["blocks"] for c in b["constraints"] if "ref" in c)
    except (KeyError, TypeError):
        refs_ok = False
    if not refs_ok:
        raise D.Skip("bad-reference")
    try:
        with env.quiet():
            shared = build_shared(spec)
    except env.CaseTimeout:
        raise
    except Exception as e:
        # does the fresh construction also refuse?  then the history is simply not constructible
        try:
            for i in range(len(spec["blocks"])):
                B.build({"factors": spec["factors"], "derived": spec["derived"], "block": resolve(spec, i)})
        except B.BuildRejected:
            raise D.Skip("constructor-rejected:%s" % type(e).__name__)
        except (KeyError, IndexError, TypeError):
            raise D.Skip("bad-reference")
        ctx.fail("shared-construction-raises", "building the blocks from shared objects raised %s: %s, fresh objects construct" % (type(e).__name__, str(e)[:200]))
        return
    used = {}
    for bi, b in enumerate(spec["blocks"]):
        for c in b["constraints"]:
            if "ref" in c:
                used.setdefault(c["ref"], set()).add(bi)
    rng = random.Random(spec.get("aux", 0))
    cap = ctx.lim("max_models")
    compared = 0
    for i, blk in enumerate(shared):
        try:
            twin = B.build({"factors": spec["factors"], "derived": spec["derived"], "block": resolve(spec, i)})
        except B.BuildRejected:
            raise D.Skip("twin-rejected")
        with env.quiet():
            Ts, Tt = blk.trials_per_sample(), twin.block.trials_per_sample()
        if Ts != Tt:
            ctx.fail("trial-count-differs", "block %d: %d trials with shared objects, %d with fresh ones" % (i, Ts, Tt))
            return
        if Ts > ctx.lim("max_T"):
            continue
        rs = ctx.lib_call("sat-shared", lambda: L.exhaust_sat_inprocess(blk, cap))
        rt = ctx.lib_call("sat-fresh", lambda: L.exhaust_sat_inprocess(twin.block, cap))
        if not (rs[1] and rt[1]):
            continue
        cs_, ct_ = D.exps_counter(rs[0]), D.exps_counter(rt[0])
        compared += 1
        if cs_ != ct_:
            only_s, only_t = sorted(set(cs_) - set(ct_)), sorted(set(ct_) - set(cs_))
            ex = (only_s or only_t or [k for k in cs_ if cs_[k] != ct_[k]])[0]
            ctx.fail("sequences-differ", "block %d (%s): %d sequences with shared objects, %d with fresh ones; e.g. %s: %r"
                     % (i, spec["blocks"][i]["type"], sum(cs_.values()), sum(ct_.values()),
                        "shared only" if only_s else "fresh only" if only_t else "multiplicity", dict(ex)))
            return
        # mismatch verdicts on a fixed candidate set
        cands = [dict(e) for e in rt[0][:3]]
        for e in list(cands):
            if Ts >= 2:
                a, b2 = rng.sample(range(Ts), 2)
                e2 = {k: list(v) for k, v in e.items()}
                for k in e2:
                    e2[k][a], e2[k][b2] = e2[k][b2], e2[k][a]
                cands.append(e2)
        for e in cands:
            sample = {str(k): list(v) for k, v in e.items()}
            try:
                with env.quiet():
                    vs = sp.sample_mismatch_experiment(blk, dict(sample)) == {}
                    vt = sp.sample_mismatch_experiment(twin.block, dict(sample)) == {}
            except env.CaseTimeout:
                raise
            except Exception:
                ctx.label("checker-raised")
                continue
            if vs != vt:
                ctx.fail("mismatch-verdict-differs", "block %d: candidate %r is %s for the block built from shared objects and %s for fresh ones"
                         % (i, sample, "accepted" if vs else "rejected", "accepted" if vt else "rejected"))
                return
    shared_across = any(len(v) >= 2 for v in used.values())
    ctx.nontrivial = compared >= 2 and shared_across
    ctx.label("blocks=%d" % len(spec["blocks"]), "last=" + spec["blocks"][-1]["type"])
    ctx.sample = {"pool": spec["pool"], "blocks": spec["blocks"]}


CFG = G.cfg(max_factors=3, max_derived=1, max_levels=3, p_weight=0.1, explicit_start=False,
            kind_weight={"min": 4, "exclude": 1, "pin": 2, "atmost": 2, "exactly_k": 2})
P = D.DesignProperty(
    "C18", judge,
    rule=("case = (factors, constraint pool, ordered list of 2-4 block constructions referring to pool constraints by index); non-trivial = "
          "at least two blocks could be exhausted and some pool constraint object is used by at least two blocks; distinct = distinct case JSON"),
    cfg_quick=CFG, n_quick=160, n_thorough=800, case_limit=(30, 180), strategy=cases, uses_reference=False,
    limits={"max_T": {"quick": 8, "thorough": 10}, "max_models": {"quick": 1500, "thorough": 10000}},
    assumptions=["the twin built by vp/build.py from the same description with fresh objects is the meaning the property refers to"])
P.export(globals())
