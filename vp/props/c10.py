"""C10 - cardinality constraints (EQ / LT / GT of n variables against k) are encoded exactly.

Oracle: arithmetic.  For every assignment of the n input variables (given to the solver as
assumptions) the clauses produced by combine_cnf_with_requests are satisfiable iff popcount REL k,
and when satisfiable the extension to all other variables is unique (selector-guarded blocking).
"""
import itertools

from hypothesis import strategies as st

from .. import runner, satutil
from ..runner import Acc

ID = "C10"
LEVEL = "exploration"
RULE = ("case = (variable list, fresh counter, list of (relation, k, subset) requests); quick: exhaustive over n<=8, "
        "k<=n+4, EQ/LT/GT, three variable numberings, ALL 2^n assignments; thorough: n<=11 plus Hypothesis cases with "
        "n<=40, arbitrary distinct ids, k<=2n+2, 1-3 simultaneous requests, 64 drawn assignments; non-trivial = n>=2; "
        "distinct = distinct (vars, fresh, requests)")
ASSUMPTIONS = ["pycryptosat answers SAT/UNSAT correctly (cross-checked by a clause evaluator on returned models)",
               "n >= 1 (the encoder documents that it cannot count an empty list)"]
CASE_LIMIT_S = 60


def _rel(rel, cnt, k):
    return {"EQ": cnt == k, "LT": cnt < k, "GT": cnt > k}[rel]


def build_clauses(case):
    from sweetpea._internal.core.cnf import CNF, Var
    from sweetpea._internal.core.generate.utility import (AssertionType, GenerationRequest,
                                                          combine_cnf_with_requests)
    reqs = [GenerationRequest(AssertionType[r["rel"]], r["k"], [Var(v) for v in r["vars"]]) for r in case["requests"]]
    initial = CNF([list(c) for c in case.get("initial", [])]) if case.get("initial") else CNF()
    cnf = combine_cnf_with_requests(initial, case["fresh"], 0, reqs)
    return cnf.as_list_of_list_of_ints()


def valid(case):
    try:
        reqs = case["requests"]
        if not reqs or not isinstance(case["fresh"], int):
            return False
        inputs = {v for r in reqs for v in r["vars"]}
        for r in reqs:
            if r["rel"] not in ("EQ", "LT", "GT") or not isinstance(r["k"], int) or r["k"] < 0:
                return False
            if not r["vars"] or len(set(r["vars"])) != len(r["vars"]) or min(r["vars"]) < 1:
                return False
        if case["fresh"] < max(inputs):
            return False
        for c in case.get("initial") or []:
            if not c or any(abs(l) not in inputs for l in c):
                return False
        if case.get("assignments") is not None and any(len(a) != len(inputs) for a in case["assignments"]):
            return False
        return True
    except (KeyError, TypeError, ValueError):
        return False


def check_case(case):
    fails = []
    if not valid(case):
        return []
    try:
        clauses = build_clauses(case)
    except Exception as e:
        return [runner.Failure("exception:%s" % type(e).__name__, case, "%s: %s" % (type(e).__name__, e))]
    inputs = sorted({v for r in case["requests"] for v in r["vars"]})
    aux = sorted(satutil.all_vars(clauses) - set(inputs))
    low_aux = [a for a in aux if a <= case["fresh"]]
    if low_aux:
        fails.append(runner.Failure("aux-below-fresh", case, "auxiliary variables %r are not above fresh=%d"
                                    % (low_aux[:5], case["fresh"])))
    solver = satutil.Sat(clauses)
    assigns = case.get("assignments")
    if assigns is None:
        assigns = itertools.product([False, True], repeat=len(inputs))
    for bits in assigns:
        bits = [bool(b) for b in bits]
        truth = dict(zip(inputs, bits))
        want = all(_rel(r["rel"], sum(truth[v] for v in r["vars"]), r["k"]) for r in case["requests"])
        lits = [v if b else -v for v, b in zip(inputs, bits)]
        n_ext = solver.count_extensions(lits, aux, cap=2)
        if (n_ext > 0) != want:
            kind = "accepts-wrong" if n_ext > 0 else "rejects-right"
            r0 = case["requests"][0]
            fails.append(runner.Failure("%s:%s" % (kind, r0["rel"] if len(case["requests"]) == 1 else "multi"), case,
                                        "assignment %r: encoding %s but arithmetic says %s"
                                        % (bits, "satisfiable" if n_ext else "unsatisfiable", want)))
            break
        if want and n_ext != 1:
            fails.append(runner.Failure("aux-not-unique", case, "assignment %r has more than one extension" % (bits,)))
            break
    return fails


# ----------------------------------------------------------------------------- exhaustive sweep

def numberings(n):
    yield "dense", list(range(1, n + 1)), n
    yield "shifted", list(range(4, n + 4)), n + 6
    yield "gapped-rev", list(range(2 * n + 1, 1, -2)), 2 * n + 3


def sweep(tier):
    nmax = 8 if tier == "quick" else 11
    for n in range(1, nmax + 1):
        for k in range(0, n + 5):
            for rel in ("EQ", "LT", "GT"):
                for name, vs, fresh in numberings(n):
                    if tier == "quick" and n >= 7 and name != "dense":
                        continue
                    if n >= 10 and name != "dense":
                        continue
                    yield {"requests": [{"rel": rel, "k": k, "vars": vs}], "fresh": fresh}


def _run_chunk(cases):
    acc = Acc()
    for case in cases:
        n = len(case["requests"][0]["vars"])
        r = case["requests"][0]
        labels = ["rel-" + r["rel"], "n=%d" % n if n <= 12 else "n>12",
                  "k>n" if r["k"] > n else ("k=n" if r["k"] == n else ("k=0" if r["k"] == 0 else "0<k<n")),
                  "requests=%d" % len(case["requests"])]
        fs = check_case(case)
        acc.case(case, n >= 2, labels)
        acc.extra["assignments_checked"] = acc.extra.get("assignments_checked", 0) + \
            (2 ** len({v for q in case["requests"] for v in q["vars"]}) if case.get("assignments") is None
             else len(case["assignments"]))
        for f in fs:
            acc.fail(f["bucket"], f["case"], f["message"])
    return acc


# ----------------------------------------------------------------------------- Hypothesis: larger inputs

@st.composite
def big_case(draw):
    n = draw(st.one_of(st.integers(1, 12), st.integers(13, 40)))
    ids = draw(st.lists(st.integers(1, 90), min_size=n, max_size=n, unique=True))
    fresh = max(ids) + draw(st.integers(0, 3))
    nreq = draw(st.sampled_from([1, 1, 1, 2, 3]))
    reqs = []
    for _ in range(nreq):
        if nreq == 1:
            vs = ids
        else:
            vs = draw(st.lists(st.sampled_from(ids), min_size=1, max_size=n, unique=True))
        m = len(vs)
        k = draw(st.one_of(st.integers(0, m + 2), st.integers(0, 2 * m + 2), st.sampled_from([m - 1, m, m + 1, 2 * m])))
        reqs.append({"rel": draw(st.sampled_from(["EQ", "LT", "GT"])), "k": max(0, k), "vars": vs})
    case = {"requests": reqs, "fresh": fresh}
    inputs = sorted({v for r in reqs for v in r["vars"]})
    if len(inputs) > 10:
        # drawn assignments, biased to counts around each k
        assigns = []
        for _ in range(48):
            assigns.append(draw(st.lists(st.booleans(), min_size=len(inputs), max_size=len(inputs))))
        for r in reqs:
            for tgt in (r["k"] - 1, r["k"], r["k"] + 1):
                if 0 <= tgt <= len(r["vars"]):
                    chosen = set(draw(st.permutations(r["vars"]))[:tgt])
                    rest = draw(st.booleans())
                    assigns.append([(v in chosen) if v in r["vars"] else rest for v in inputs])
        case["assignments"] = assigns
    if draw(st.integers(0, 4)) == 0:
        # an unrelated initial formula over the same inputs (a tautology, so the relation is unchanged)
        case["initial"] = [[inputs[0], -inputs[0]]]
    return case


def _run_hyp(arg):
    seed_value, n = arg
    acc = runner.track(Acc())
    runner.drive(big_case(), lambda case: acc.merge(_run_chunk([case])), n, seed_value)
    return acc


def run(tier, seed):
    cases = list(sweep(tier))
    cases.sort(key=lambda c: -len(c["requests"][0]["vars"]))
    nch = 64
    acc = runner.run_jobs(_run_chunk, [cases[i::nch] for i in range(nch) if cases[i::nch]])
    acc.extra["sweep_tuples"] = len(cases)
    n_hyp = 60 if tier == "quick" else 600
    acc.merge(runner.run_jobs(_run_hyp, [(runner.shard_seed(seed, i), n_hyp) for i in range(16)]))
    acc.extra["exhaustive"] = True
    acc.extra["exhaustive_scope"] = "all (n, k, relation, numbering) of sweep(tier) with all 2^n assignments"
    return acc
