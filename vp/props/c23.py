"""C23 - weighted levels behave as documented.

Two oracles.
(1) Metamorphic copy-expanded twin, built through the public API: every weighted basic factor F is replaced by a factor
    F__c whose levels are w separately named, unweighted copies 'l#i' of each level l, plus a within-trial derived factor
    named F that reports the original name; derived factors and constraints keep referring to F, crossings containing F
    contain F__c instead.  Projected back to the original factor names the twin must have
      - the same SET of sequences when F is crossed (the copies make each combination with l occur w times, and the
        original must not count those occurrences as distinct solutions: every multiplicity is 1), and
      - the same MULTISET when F is outside the crossing (w separately named copies reported under the original name).
(2) The reference enumeration with multiplicities (vp/ref.py item 7) for the original design.
"""
import copy

from .. import build as B
from .. import design as D
from .. import env, lib as L, spec as S, strategies as G


def twin_of(spec):
    """(twin spec, set of crossed weighted factors, set of uncrossed weighted factors)"""
    t = copy.deepcopy(spec)
    crossed = set()
    for c in S.block_crossings(spec["block"]):
        crossed.update(c)
    wf = [f for f in spec["factors"] if any(l[1] > 1 for l in f["levels"])]
    new_derived = []
    for f in wf:
        name = f["name"]
        copies = []
        ov = {}
        for i, (l, w) in enumerate(f["levels"]):
            for k in range(w):
                cn = "%s#%d" % (l, k)
                copies.append([cn, 1])
                ov[S.key_json([cn])] = i
        for g in t["factors"]:
            if g["name"] == name:
                g["name"] = name + "__c"
                g["levels"] = copies
        new_derived.append({"name": name, "args": [name + "__c"], "kind": "within", "width": 1, "stride": 1, "start": None,
                            "levels": [[l, 1] for l, _ in f["levels"]], "else_last": False, "salt": 0, "overrides": ov})
    t["derived"] = new_derived + t["derived"]
    b = t["block"]
    names = {f["name"] for f in wf}
    b["design"] = [n + "__c" for n in b["design"] if n in names] + b["design"]
    if b["type"] == "cross":
        b["crossing"] = [n + "__c" if n in names else n for n in b["crossing"]]
    else:
        b["crossings"] = [[n + "__c" if n in names else n for n in c] for c in b["crossings"]]
    return t, {n for n in names if n in crossed}, {n for n in names if n not in crossed}


def judge(ctx):
    spec = ctx.spec
    if spec["block"]["type"] not in ("cross", "multi"):
        raise D.Skip("not-a-leaf-block")
    wf = [f["name"] for f in spec["factors"] if any(l[1] > 1 for l in f["levels"]) and f["name"] in spec["block"]["design"]]
    if not wf:
        raise D.Skip("no-weighted-basic-factor")
    derived_weights = any(l[1] > 1 for d in spec["derived"] for l in d["levels"])
    for c in spec["block"]["constraints"]:
        if (c["kind"] == "sequential" and c["factor"] in wf) or (c["kind"] == "latin" and set(c["factors"]) & set(wf)):
            # refused by the library for crossed factors; for uncrossed ones it orders the hidden copies (see DESIGN.md 4.4)
            raise D.Skip("ambiguous:weights-in-order-constraint")
    blk = ctx.block
    ctx.require_small()
    cap = ctx.lim("max_models")
    if derived_weights:
        # a weighted derived level cannot be written as named copies (two derived levels may not match the same input):
        # only the reference oracle speaks (crossing combinations with the level occur w times as often)
        ctx.label("weighted-derived-level:reference-only")
        ctx.require_unambiguous(allow=("rcc-with-removal", "empty-crossing", "all-levels-excluded"))
        orig, c1 = ctx.sat_all(cap=cap)
        if not c1:
            raise D.Skip("too-large:models")
        oc = D.exps_counter(orig)
        want = D.ref_counter(ctx.ref_enum())
        ctx.nontrivial = bool(oc)
        ctx.sample = {"spec": spec, "sequences": sum(oc.values())}
        if want != oc:
            ctx.fail("reference-multiset", "reference has %d solutions (%d distinct), library %d (%d distinct)"
                     % (sum(want.values()), len(want), sum(oc.values()), len(oc)))
        return
    tspec, wc, wu = twin_of(spec)
    try:
        tb = B.build(tspec)
    except B.BuildRejected as e:
        raise D.Skip("twin-rejected:%s" % type(e.exc).__name__)
    orig, c1 = ctx.sat_all(cap=cap)
    twin, c2 = ctx.lib_call("sat-twin", lambda: L.exhaust_sat_inprocess(tb.block, cap))
    if not (c1 and c2):
        raise D.Skip("too-large:models")
    names = set(S.all_factor_names(spec))
    oc = D.exps_counter(orig)
    tc = D.exps_counter([{k: v for k, v in e.items() if k in names} for e in twin])
    dm = S.derived_by_name(spec)
    referenced = any(set(d["args"]) & set(wf) for d in spec["derived"]) or any(c.get("factor") in wf for c in spec["block"]["constraints"])
    ctx.label("weighted:" + ("crossed" if wc and not wu else "uncrossed" if wu and not wc else "both"))
    if referenced:
        ctx.label("weighted-level-referenced")
    ctx.nontrivial = len(oc) >= 1 and bool(oc)
    ctx.sample = {"spec": spec, "sequences": sum(oc.values())}
    if set(oc) != set(tc):
        only_o, only_t = sorted(set(oc) - set(tc)), sorted(set(tc) - set(oc))
        ex = (only_o or only_t)[0]
        ctx.fail("twin-set-differs", "weighted design has %d distinct sequences, its copy-expanded twin %d; e.g. %s only: %r"
                 % (len(oc), len(tc), "original" if only_o else "twin", dict(ex)))
        return
    if wc and not wu:
        multi = [k for k, v in oc.items() if v > 1]
        if multi:
            ctx.fail("crossed-weight-counts-as-distinct", "sequence %r is returned %d times although all weighted levels are crossed"
                     % (dict(multi[0]), oc[multi[0]]))
            return
    if wu and not wc:
        if oc != tc:
            k = [k for k in oc if oc[k] != tc[k]][0]
            ctx.fail("uncrossed-weight-multiplicity", "sequence %r: %d solutions in the weighted design, %d in the design with named copies"
                     % (dict(k), oc[k], tc[k]))
            return
    # (2) reference multiset, where the documentation is unambiguous
    try:
        r = ctx.ref
        if not r.ambiguous:
            want = D.ref_counter(ctx.ref_enum())
            ctx.label("reference-compared")
            if want != oc:
                ctx.fail("reference-multiset", "reference has %d solutions (%d distinct), library %d (%d distinct)"
                         % (sum(want.values()), len(want), sum(oc.values()), len(oc)))
    except D.Skip:
        pass


def _ensure_weight(spec):
    """construction instead of rejection: a leaf design without any weighted basic factor gets one weight (which level is
    a pure function of the case, so the case stays reproducible and shrinkable)"""
    b = spec["block"]
    if b["type"] in ("cross", "multi") and not any(l[1] > 1 for f in spec["factors"] for l in f["levels"] if f["name"] in b["design"]):
        cands = [f for f in spec["factors"] if f["name"] in b["design"]]
        if cands:
            h = S.hidx(0, [f["name"] for f in spec["factors"]] + [len(spec["derived"]), len(b.get("constraints", []))], 10 ** 6)
            f = cands[h % len(cands)]
            f["levels"][(h // 7) % len(f["levels"])][1] = 2 + (h // 49) % 2
    return spec


def _cases(c):
    return G.mixed_spec(c).map(_ensure_weight)


CFG = G.cfg(p_weight=0.6, max_weight=3, derived_weights=True, max_constraints=2, round_skeleton=True)
P = D.DesignProperty(
    "C23", judge,
    rule=("case = generated design spec with at least one weighted basic factor and its copy-expanded twin; both are exhausted through the "
          "compiled formula; non-trivial = the weighted design has at least one sequence; classes: weighted crossed / uncrossed / both, "
          "weighted level referenced by a derived factor or constraint; distinct = distinct spec JSON"),
    cfg_quick=CFG, n_quick=60, n_thorough=600, case_limit=(20, 120), strategy=_cases,
    limits={"max_T": {"quick": 7, "thorough": 9}, "max_models": {"quick": 2500, "thorough": 15000}, "max_seqs": {"quick": 600, "thorough": 4000}},
    assumptions=["the twin is a faithful expression of 'w separately named copies reported under the original name' (a within-trial factor reports the name)",
                 "weights on derived levels are outside this property's text and excluded"])
P.export(globals())
