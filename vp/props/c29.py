"""C29 - SMGen either refuses a design or returns valid sequences.

Generator: single-crossing designs from the reference domain (SMGen refuses multi-crossing blocks and most constraints, so
the generator concentrates on what it accepts: within-trial and transition factors, weights, MinimumTrials) and short
HISTORIES of 1-3 designs run in the same process (the search keeps module-global state; reset_state must isolate them).
Every history runs in a disposable forked child (SMGen starts a non-daemon 60 s timer and its search may not terminate):
a child that does not answer within the limit is inconclusive.  The schedule dimension is the module's EXEC_TH threshold
(timer fires before / during / after the search).
Oracle: if SMGen raises its unsupported-feature error (a plain Exception raised by its _cexit helper) the design is counted
as refused; otherwise every returned sequence must pass the reference validity predicate (trial count included).
"""
import os

from hypothesis import strategies as st

from .. import build as B
from .. import design as D
from .. import env, lib as L, ref as R, spec as S, strategies as G


@st.composite
def histories(draw, c):
    first = draw(G.design_spec(c))
    extra = [draw(G.design_spec(c)) for _ in range(draw(st.sampled_from([0, 0, 1, 2])))]
    first["history_before"] = extra
    first["exec_th"] = draw(st.sampled_from([None, None, 0.001, 0.05]))
    return first


def _run_history(specs, exec_th, limit):
    """executed in the child: returns list of ('refused', msg) | ('ok', [sequences]) | ('crash', bucket) | ('rejected',)"""
    import sweetpea as sp
    import sweetpea._internal.sampling_strategy.scattered_map_core as core
    if exec_th is not None and hasattr(core, "EXEC_TH"):
        core.EXEC_TH = exec_th
    out = []
    for spec in specs:
        try:
            built = B.build(spec)
        except B.BuildRejected:
            out.append(("rejected",))
            continue
        try:
            res, _ = L.synth(built.block, 2, "SMGen", D.lib_seed(spec), limit=limit)
            out.append(("ok", [{str(k): ['' if x is None else x for x in v] for k, v in L.visible(e).items()} for e in res]))
        except env.CaseTimeout:
            out.append(("timeout",))
            break
        except Exception as e:
            frame = env.innermost_repo_frame(e)
            if type(e) is Exception and ("_cexit" in frame or "smgen.py" in frame or "scattered_map_core.py:_cexit" in frame):
                out.append(("refused", str(e)[:120]))
            else:
                out.append(("crash", "%s@%s: %s" % (type(e).__name__, frame, str(e)[:100])))
    return out


def judge(ctx):
    spec = ctx.spec
    specs = [s for s in spec.get("history_before", [])] + [{k: v for k, v in spec.items() if k not in ("history_before", "exec_th")}]
    limit = ctx.P.case_limit[ctx.tier] - 4
    status, val = L.in_child(lambda: _run_history(specs, spec.get("exec_th"), limit), limit + 3)
    if status == "timeout":
        raise env.CaseTimeout()
    if status != "ok":
        ctx.label("child:" + status)
        raise D.Skip("child-%s" % status)
    ctx.label("history-length=%d" % len(specs), "exec_th=%s" % spec.get("exec_th"))
    judged = 0
    for s, r in zip(specs, val):
        ctx.label("smgen:" + r[0])
        if r[0] == "crash":
            ctx.label("crash:" + r[1].split(":")[0])
            continue
        if r[0] != "ok":
            continue
        try:
            ref = R.Ref(s)
        except R.Unsupported:
            continue
        amb = [a for a in ref.ambiguous if a not in ("rcc-with-removal", "empty-crossing", "all-levels-excluded")]
        if amb:
            ctx.label("ambiguous")
            continue
        for seq in r[1]:
            judged += 1
            ok, why = ref.is_valid(seq)
            if not ok:
                ctx.fail("invalid-sequence", "SMGen returned %r for %s: %s" % (seq, S.features(s), why))
                return
    main = specs[-1]
    ctx.nontrivial = judged >= 1 and bool(main["derived"] or main["block"]["constraints"] or any(l[1] > 1 for f in main["factors"] for l in f["levels"]))
    ctx.sample = {"history": [s["block"] for s in specs], "exec_th": spec.get("exec_th"), "results": [r[0] for r in val]}


CFG = G.cfg(kinds=("within", "transition"), constraints=("min", "min", "exclude", "atmost", "exactly_row"), max_constraints=1,
            empty_crossing=False, max_levels=3, max_factors=3, derived_args_derived=True)
P = D.DesignProperty(
    "C29", judge,
    rule=("case = history of 1-3 generated single-crossing designs run with SMGen in one forked child, plus the timer threshold; the last "
          "design's verdict counts; non-trivial = SMGen returned at least one sequence that the reference judged for a design with a derived "
          "factor, a weight or a constraint; refusals, crashes (other exceptions) and time-outs are counted as classes; distinct = distinct case JSON"),
    cfg_quick=CFG, n_quick=25, n_thorough=200, case_limit=(8, 40), strategy=histories,
    limits={"max_T": {"quick": 9, "thorough": 12}},
    assumptions=["a plain Exception raised from SMGen's _cexit helper is its documented refusal", "other exceptions are outside this property (C08 excludes SMGen) and reported as a class",
                 "interleavings are limited to when the module's timer fires"])
P.export(globals())
