"""C07 - SAT-based and combinatoric samplers agree on the solution space.

Pure differential: for designs both strategies accept, the set of sequences obtained by exhausting the compiled formula
(the models IterateSATGen iterates over, decoded the way it decodes them; the real IterateSATGen loop is used as well
when the set is small) equals the set obtained by exhausting RandomGen, compared by level names.  Designs too large to
exhaust are not discarded: every sequence RandomGen returns for them must be a model of that formula (membership mode,
one direction of the agreement).  No reference model.
"""
from .. import design as D
from .. import env, lib as L, satutil, strategies as G


def membership(ctx):
    """designs too large to exhaust: every sequence RandomGen returns must be a model of the formula IterateSATGen
    iterates over (one direction of the agreement; the sequence is turned into assumptions on the trial variables)"""
    from sweetpea._internal.primitive import HiddenName
    spec = ctx.spec
    blk = ctx.block
    if any(isinstance(f.name, HiddenName) for f in blk.design):
        raise D.Skip("too-large:models")            # copies of weighted levels print identically: no unique assignment
    if ctx.T_lib > ctx.lim("max_T_membership"):
        raise D.Skip("too-large:T")
    clauses = ctx.lib_call("build_cnf", lambda: L.cnf_clauses(blk))
    with env.quiet():
        if blk.show_errors():
            raise D.Skip("design-reports-errors")
    rnd, _ = ctx.synth("RandomGen", 6, block=ctx.fresh_built().block)
    if not rnd:
        raise D.Skip("too-large:models")
    solver = satutil.Sat(clauses, extra_vars=blk.variables_per_sample())
    T = ctx.T_lib
    ctx.label("membership-mode")
    for e in rnd:
        lits = []
        for f in blk.act_design:
            col = e.get(f.name)
            if col is None:
                raise D.Skip("membership:column-missing")
            sus = blk.sustain_count(f)
            for t in range(T):
                if not f.applies_to_trial(t // sus + 1):
                    continue
                for lv in f.levels:
                    v = blk.get_variable(t + 1, (f, lv))
                    lits.append(v if lv.name == col[t] else -v)
        ok, _m = solver.solve(lits)
        if not ok:
            ctx.fail("solution-space:random-only", "RandomGen returned %r, which is not a model of the formula IterateSATGen iterates over"
                     % D.exp_to_seq(e))
            return
    ctx.nontrivial = bool(spec["derived"] or spec["block"]["constraints"])
    ctx.sample = {"spec": spec, "mode": "membership", "sequences_checked": len(rnd)}


def judge(ctx):
    spec = ctx.spec
    blk = ctx.block
    if ctx.T_lib > ctx.lim("max_T"):
        return membership(ctx)
    cap = ctx.lim("max_seqs")
    sat, complete = ctx.sat_all(cap=ctx.lim("max_models"))
    if not complete:
        return membership(ctx)
    sat_set = set(D.exps_counter(sat))
    if len(sat_set) > cap:
        return membership(ctx)
    rnd, _ = ctx.synth("RandomGen", cap * 4 + 8, block=ctx.fresh_built().block)
    rnd_set = set(D.exps_counter(rnd))
    if len(rnd) >= cap * 4 + 8:
        raise D.Skip("too-large:random")
    ctx.nontrivial = len(sat_set) >= 2 and len(rnd_set) >= 2 and bool(spec["derived"] or spec["block"]["constraints"])
    if not sat_set and not rnd_set:
        ctx.label("both-empty")
    if len(sat_set) <= ctx.lim("real_loop") and sat_set:
        real, _ = ctx.synth("IterateSATGen", len(sat) + 3, block=ctx.fresh_built().block)
        real_set = set(D.exps_counter(real))
        if real_set != sat_set:
            ctx.fail("iterate-loop-vs-formula", "IterateSATGen returned %d distinct sequences, its formula has %d" % (len(real_set), len(sat_set)))
    if sat_set != rnd_set:
        only_sat = sorted(sat_set - rnd_set)
        only_rnd = sorted(rnd_set - sat_set)
        kind = "sat-only" if only_sat and not only_rnd else "random-only" if only_rnd and not only_sat else "both-differ"
        ex = (only_sat or only_rnd)[0]
        ctx.fail("solution-space:" + kind, "IterateSATGen has %d sequences, RandomGen %d; e.g. %s only: %r"
                 % (len(sat_set), len(rnd_set), "SAT" if only_sat else "RandomGen", dict(ex)))
    ctx.sample = {"spec": spec, "sequences": len(sat_set)}


CFG = G.cfg(blocks=("cross", "cross", "multi", "repeat", "merge", "nest"))
P = D.DesignProperty(
    "C07", judge,
    rule=("case = generated design spec accepted by the constructor and by both samplers; both are exhausted (designs too large for that: 6 RandomGen sequences are checked for membership in the formula); non-trivial = "
          "both sets have >= 2 sequences and the design has a derived factor or a constraint; distinct = distinct spec JSON"),
    cfg_quick=CFG, n_quick=80, n_thorough=400, case_limit=(25, 180),
    limits={"max_T": {"quick": 7, "thorough": 9}, "max_seqs": {"quick": 300, "thorough": 2500},
            "max_models": {"quick": 1500, "thorough": 10000}, "real_loop": {"quick": 40, "thorough": 150},
            "max_T_membership": {"quick": 14, "thorough": 20}},
    assumptions=["exhausting = asking for more sequences than exist; the in-process model enumeration decodes with Gen.decode and add_implied_levels exactly like the samplers"])
P.export(globals())
