"""C21 - tabulation counts are exact.

Generator: 1-3 factors (levels are tokens without '|' or blanks), 1-3 arbitrary well-formed experiments of T trials (a
factor may have '' in its first one or two trials, as complex-window derived factors do in synthesized experiments),
selection through `factors=` (a subset, in generated order) or through `block=` (single-crossing CrossBlock), `trials`
None or a non-empty list of distinct in-range indices.
Oracle: the captured stdout is parsed (one table per experiment, rows split on ' | ', each cell = '<factor name> <value>');
for every combination of levels exactly one row, frequency = own count over the selected trials, proportion =
100 * frequency / len(selected) within 1e-9.
"""
import itertools
import random

from hypothesis import strategies as st

from .. import env, runner
from ..runner import Acc

ID = "C21"
LEVEL = "exploration"
RULE = ("case = (factors with token level names, experiments drawn cell by cell, selected factors via block or factors=, "
        "trial selection); non-trivial = at least 2 level combinations and (a proper subset of trials or >= 2 experiments); "
        "distinct = distinct case JSON")
ASSUMPTIONS = ["level and factor names are tokens without blanks or '|' so the printed table can be parsed unambiguously",
               "trial indices are distinct and in range"]
CASE_LIMIT_S = 20

TOKEN = st.text(alphabet=st.sampled_from(list("abcxyz019_-")), min_size=1, max_size=5)


@st.composite
def cases(draw):
    nf = draw(st.integers(1, 3))
    fnames = draw(st.lists(TOKEN, min_size=nf, max_size=nf, unique=True).filter(lambda ns: not ({"frequency", "proportion"} & set(ns))))
    factors = []
    for n in fnames:
        k = draw(st.integers(1, 4))
        factors.append({"name": n, "levels": draw(st.lists(TOKEN, min_size=k, max_size=k, unique=True))})
    T = draw(st.integers(1, 10))
    nexp = draw(st.integers(1, 3))
    exps = []
    # like a Transition / Window factor in a synthesized experiment: '' in the trials where the factor has no level
    blanks = {f["name"]: draw(st.sampled_from([0, 0, 0, 1, 2])) for f in factors}
    for _ in range(nexp):
        exps.append({f["name"]: ['' if t < blanks[f["name"]] else draw(st.sampled_from(f["levels"])) for t in range(T)] for f in factors})
    via_block = draw(st.booleans())
    k = draw(st.integers(1, nf))
    sel = draw(st.permutations(list(range(nf))))[:k]
    trials = None
    if draw(st.booleans()):
        trials = draw(st.lists(st.integers(0, T - 1), min_size=1, max_size=T, unique=True))
    return {"factors": factors, "T": T, "experiments": exps, "via_block": via_block, "selected": list(sel), "trials": trials}


def _valid(case):
    try:
        names = [f["name"] for f in case["factors"]]
        if not names or len(set(names)) != len(names) or {"frequency", "proportion"} & set(names):
            return False
        for f in case["factors"]:
            if not f["levels"] or len(set(f["levels"])) != len(f["levels"]):
                return False
            if any((not isinstance(l, str)) or (not l) or any(ch in l for ch in " |\n\t") for l in f["levels"] + [f["name"]]):
                return False
        T = case["T"]
        if T < 1 or not case["experiments"]:
            return False
        for e in case["experiments"]:
            if set(e) != set(names) or any(len(v) != T for v in e.values()):
                return False
            for f in case["factors"]:
                if any(v not in f["levels"] and v != '' for v in e[f["name"]]):
                    return False
        sel = case["selected"]
        if not sel or len(set(sel)) != len(sel) or any(not (0 <= i < len(names)) for i in sel):
            return False
        tr = case["trials"]
        if tr is not None and (not tr or len(set(tr)) != len(tr) or any((not isinstance(t, int)) or not (0 <= t < T) for t in tr)):
            return False
        return True
    except (KeyError, TypeError, AttributeError):
        return False


def parse_tables(text):
    """{experiment index: list of rows}, row = list of (name, value) cells"""
    tables = {}
    cur = None
    for line in text.splitlines():
        s = line.strip()
        if s.startswith("Experiment ") and s.endswith(":"):
            cur = int(s[len("Experiment "):-1])
            tables[cur] = []
            continue
        if not s or cur is None:
            continue
        cells = []
        for cell in line.split(" | "):
            parts = cell.strip().split(" ")
            if len(parts) != 2:
                raise ValueError("cell %r is not '<name> <value>'" % cell)
            cells.append((parts[0], parts[1]))
        tables[cur].append(cells)
    return tables


def check_case(case):
    if not _valid(case):
        return []
    fails = []

    def fail(kind, msg):
        fails.append(runner.Failure(kind, case, msg))
    try:
        _check(case, fail)
    except env.CaseTimeout:
        raise
    except Exception as e:
        fail("exception:" + env.exc_bucket(e), "%s: %s" % (type(e).__name__, e))
    return fails


def _check(case, fail):
    import sweetpea as sp
    with env.quiet():
        fs = [sp.Factor(f["name"], list(f["levels"])) for f in case["factors"]]
    sel = [fs[i] for i in case["selected"]]
    sel_spec = [case["factors"][i] for i in case["selected"]]
    exps = [dict((k, list(v)) for k, v in e.items()) for e in case["experiments"]]
    trials = None if case["trials"] is None else list(case["trials"])
    with env.quiet() as buf:
        if case["via_block"]:
            blk = sp.CrossBlock(fs, sel, [])
            sp.tabulate_experiments(blk, exps, trials=trials)
        else:
            sp.tabulate_experiments(experiments=exps, factors=sel, trials=trials)
    text = buf.getvalue()
    try:
        tables = parse_tables(text)
    except ValueError as e:
        fail("table-unparsable", str(e))
        return
    if sorted(tables) != list(range(len(exps))):
        fail("table-count", "tables printed for experiments %r, expected 0..%d" % (sorted(tables), len(exps) - 1))
        return
    selected = list(range(case["T"])) if case["trials"] is None else list(case["trials"])
    combos = list(itertools.product(*[f["levels"] for f in sel_spec]))
    for i, e in enumerate(case["experiments"]):
        rows = tables[i]
        seen = {}
        for r in rows:
            names = [c[0] for c in r]
            if names != [f["name"] for f in sel_spec] + ["frequency", "proportion"]:
                fail("table-columns", "experiment %d: row columns %r" % (i, names))
                return
            key = tuple(c[1] for c in r[:-2])
            if key in seen:
                fail("row-duplicated", "experiment %d: combination %r printed twice" % (i, key))
                return
            seen[key] = (r[-2][1], r[-1][1])
        if set(seen) != set(combos):
            fail("rows-vs-combinations", "experiment %d: rows for %d combinations, expected %d" % (i, len(seen), len(combos)))
            return
        for c in combos:
            want = sum(1 for t in selected if all(e[f["name"]][t] == v for f, v in zip(sel_spec, c)))
            fr, pr = seen[c]
            try:
                got_f = int(fr)
                got_p = float(pr.rstrip("%"))
            except ValueError:
                fail("cell-not-numeric", "experiment %d combination %r: frequency %r proportion %r" % (i, c, fr, pr))
                return
            if not pr.endswith("%"):
                fail("proportion-format", "proportion cell %r lacks %%" % pr)
                return
            if got_f != want:
                fail("frequency-wrong", "experiment %d combination %r: printed %d, counted %d over trials %r" % (i, c, got_f, want, selected))
                return
            if abs(got_p - 100.0 * want / len(selected)) > 1e-9:
                fail("proportion-wrong", "experiment %d combination %r: printed %r, expected %r" % (i, c, got_p, 100.0 * want / len(selected)))
                return


def _labels(case):
    labs = ["via-block" if case["via_block"] else "via-factors", "experiments=%d" % len(case["experiments"]),
            "has-empty-cells" if any(v == '' for e in case["experiments"] for col in e.values() for v in col) else "no-empty-cells",
            "trials=None" if case["trials"] is None else ("trials=all" if len(case["trials"]) == case["T"] else "trials=subset"),
            "selected=%d" % len(case["selected"])]
    return labs


def _nontrivial(case):
    ncomb = 1
    for i in case["selected"]:
        ncomb *= len(case["factors"][i]["levels"])
    subset = case["trials"] is not None and len(case["trials"]) < case["T"]
    return ncomb >= 2 and (subset or len(case["experiments"]) >= 2)


def _run_hyp(arg):
    seed_value, n = arg
    acc = runner.track(Acc())

    def body(case):
        try:
            with env.time_limit(CASE_LIMIT_S):
                fs = check_case(case)
        except env.CaseTimeout:
            acc.inconclusive += 1
            return
        finally:
            env.clean_cwd_files()
        acc.case(case, _nontrivial(case), _labels(case))
        for f in fs:
            acc.fail(f["bucket"], f["case"], f["message"])
    runner.drive(cases(), body, n, seed_value)
    return acc


def run(tier, seed):
    n = 250 if tier == "quick" else 5000
    return runner.run_jobs(_run_hyp, [(runner.shard_seed(seed, i), n) for i in range(16)])
