"""C16 - the trial count follows the documented rules; every sequence has that length.

Oracle: vp/ref.py computes the documented arithmetic (weighted crossing size, minus excluded/impossible combinations
when complete crossing is not required, plus the preamble of the latest-starting crossed derived factor, at least
MinimumTrials, maximum over crossings).  `block.trials_per_sample()` must equal it and every sequence returned by
IterateSATGen, RandomGen, CMSGen and UniGen must have exactly that many entries for every factor.
"""
from .. import design as D
from .. import env, lib as L, spec as S, strategies as G


def plain_product(spec):
    b = spec["block"]
    crossings = S.block_crossings(b)
    best = 1
    for c in crossings:
        n = 1
        for f in c:
            n *= len(S.levels_of(spec, f))
        best = max(best, n)
    return best


def judge(ctx):
    spec = ctx.spec
    blk = ctx.block
    r = ctx.ref
    ctx.require_unambiguous()
    T_ref = r.trial_count()
    if T_ref is None:
        raise D.Skip("trial-count-unspecified")
    T = ctx.T_lib
    ctx.nontrivial = T_ref != plain_product(spec)
    ctx.sample = {"spec": spec, "T": T_ref}
    if T != T_ref:
        ctx.fail("trial-count", "trials_per_sample() = %d, documented arithmetic gives %d" % (T, T_ref))
        return
    if T > ctx.lim("max_T"):
        ctx.label("length-not-sampled:too-large")
        return
    names = [n for n in r.C["design"]]
    for g, n in (("IterateSATGen", 2), ("RandomGen", 2), ("CMSGen", 2), ("UniGen", 1)):
        blk2 = ctx.fresh_built().block
        if g == "UniGen":
            def call(blk2=blk2):
                res, _ = L.synth(blk2, 1, "UniGen", D.lib_seed(spec), limit=ctx.P.case_limit[ctx.tier])
                return [{str(k): len(v) for k, v in L.visible(e).items()} for e in res]
            status, val = L.in_child(call, ctx.P.case_limit[ctx.tier] + 5)
            if status != "ok":
                ctx.label("UniGen:" + status)
                continue
            lens = val
        else:
            try:
                res, _ = L.synth(blk2, n, g, D.lib_seed(spec))
            except env.CaseTimeout:
                raise
            except Exception as e:
                ctx.label("lib-exception:" + g)
                continue
            lens = [{str(k): len(v) for k, v in L.visible(e).items()} for e in res]
        ctx.label("%s:%s" % (g, "sampled" if lens else "no-sequence"))
        for e in lens:
            bad = {k: v for k, v in e.items() if v != T_ref}
            missing = [k for k in names if k not in e]
            if bad:
                ctx.fail("sequence-length:" + g, "%s returned columns of length %r, the trial count is %d" % (g, bad, T_ref))
                break
            if missing:
                ctx.fail("column-missing:" + g, "%s returned no column for %r" % (g, missing))
                break


CFG = G.cfg(blocks=("cross", "cross", "multi", "repeat", "merge", "nest"))
P = D.DesignProperty(
    "C16", judge,
    rule=("case = generated design spec accepted by the constructor for which the documentation fixes the trial count "
          "(ambiguous and unsatisfiable-by-construction classes are discarded and counted); non-trivial = the documented "
          "count differs from the plain product of the crossed factors' level counts (weights, preamble, exclusion, "
          "MinimumTrials or several crossings contribute); distinct = distinct spec JSON"),
    cfg_quick=CFG, n_quick=50, n_thorough=250, case_limit=(10, 60),
    limits={"max_T": {"quick": 8, "thorough": 12}},
    assumptions=["vp/ref.py reads the documented trial-count rules correctly (self-tested against the maintainers' acceptance counts)"])
P.export(globals())
