"""C15 - derived factors must be total, unambiguous functions of their window.

Generator: design specs whose derived factors are total lookup tables (vp/spec.py); Hypothesis then plants, at one window
input of one derived factor, (i) an overlap (two levels accept it), (ii) a gap (no level accepts it) or (iii) nothing.
Oracle: (i) the block constructor raises; (ii) synthesize_trials with IterateSATGen and RandomGen returns [] and the
captured output reports an error about the unmatched input; (iii) in every returned sequence each applicable trial of
each derived factor carries the level its table selects and every other trial carries '' (reference applicability).
"""
import itertools

from hypothesis import strategies as st

from .. import build as B
from .. import design as D
from .. import env, lib as L, spec as S, strategies as G


@st.composite
def planted(draw, c):
    spec = draw(G.design_spec(c))
    spec["plant"] = "none"
    if not spec["derived"]:
        return spec
    kind = draw(st.sampled_from(["none", "overlap", "gap", "overlap", "gap"]))
    di = draw(st.integers(0, len(spec["derived"]) - 1))
    d = spec["derived"][di]
    w = S.window_of(d)[0]
    key = []
    for a in d["args"]:
        names = [l[0] for l in S.levels_of(spec, a)]
        if w == 1:
            key.append(draw(st.sampled_from(names)))
        else:
            key.append([draw(st.sampled_from(names)) for _ in range(w)])
    n = len(d["levels"])
    non_else = n - 1 if d.get("else_last") else n
    if kind == "overlap":
        if non_else < 2:
            return spec
        i, j = sorted(draw(st.lists(st.integers(0, non_else - 1), min_size=2, max_size=2, unique=True)))
        d["overrides"] = {S.key_json(key): [i, j]}
    elif kind == "gap":
        if d.get("else_last"):
            return spec
        d["overrides"] = {S.key_json(key): None}
    else:
        return spec
    spec["plant"] = kind
    spec["plant_factor"] = d["name"]
    return spec


def judge(ctx):
    spec = ctx.spec
    plant = spec.get("plant", "none")
    planted_ov = [d for d in spec["derived"] if any(not isinstance(v, int) for v in (d.get("overrides") or {}).values())]
    if plant != "none" and not planted_ov:
        raise D.Skip("plant-shrunk-away")
    kinds = set()
    for d in planted_ov:
        for v in d["overrides"].values():
            kinds.add("gap" if v is None else "overlap" if isinstance(v, list) else "none")
    used = set()
    for b in S.iter_blocks(spec["block"]):
        used.update(b.get("design", []))
    if any(d["name"] not in used for d in planted_ov):
        raise D.Skip("planted-factor-not-in-design")
    ctx.label("plant:" + ("+".join(sorted(kinds)) or "none"))
    if "overlap" in kinds:
        try:
            B.build(spec)
        except B.BuildRejected as e:
            if e.stage == "block" and isinstance(e.exc, ValueError):
                ctx.nontrivial = True
                return
            raise D.Skip("constructor-rejected-otherwise:%s:%s" % (e.stage, type(e.exc).__name__))
        ctx.nontrivial = True
        ctx.fail("overlap-accepted", "factor %s has two levels accepting the same window input but the block was built" % planted_ov[0]["name"])
        return
    blk = ctx.block
    ctx.require_small()
    if "gap" in kinds:
        ctx.nontrivial = True
        for g in ("IterateSATGen", "RandomGen"):
            b2 = ctx.fresh_built().block
            res, out = ctx.lib_call(g, lambda: L.synth(b2, 3, g, D.lib_seed(spec)))
            if res:
                ctx.fail("gap-returns-sequences:" + g, "factor %s has a window input no level accepts, yet %s returned %d sequence(s)"
                         % (planted_ov[0]["name"], g, len(res)))
            elif "No level in" not in out and "rror" not in out:
                ctx.fail("gap-not-reported:" + g, "%s returned [] without reporting the unmatched window input; output: %r" % (g, out[-300:]))
        return
    # nothing planted: derived levels must follow the tables
    r = ctx.ref
    T = ctx.T_lib
    n = 0
    for g in ("IterateSATGen", "RandomGen"):
        res, _ = ctx.synth(g, 4, block=ctx.fresh_built().block)
        for e in res:
            seq = D.exp_to_seq(e)
            n += 1
            for d in spec["derived"]:
                f = d["name"]
                if f not in seq:
                    continue
                for t in range(T):
                    if r.applicable(f, t):
                        want = r.derive(f, seq, t)
                        if seq[f][t] != want:
                            ctx.fail("derived-level-wrong:" + g, "%s[%d] = %r but its window selects %r in %r" % (f, t, seq[f][t], want, seq))
                            return
                    elif seq[f][t] != '':
                        ctx.fail("level-where-not-applicable:" + g, "%s[%d] = %r although the factor does not apply there" % (f, t, seq[f][t]))
                        return
    ctx.nontrivial = n >= 1 and bool(spec["derived"])


CFG = G.cfg(max_constraints=1, p_weight=0.1)
P = D.DesignProperty(
    "C15", judge,
    rule=("case = generated design spec plus one planted table defect (overlap / gap / none) at a Hypothesis-drawn window input of one "
          "derived factor; non-trivial = a defect is planted on a factor of the design, or (plant none) at least one sequence was returned "
          "for a design with derived factors; distinct = distinct spec JSON"),
    cfg_quick=CFG, n_quick=70, n_thorough=500, case_limit=(15, 90), strategy=planted,
    limits={"max_T": {"quick": 8, "thorough": 12}},
    assumptions=["a planted input is a tuple of existing level names of the argument factors; None-padded inputs of early starts are excluded with finding F12"])
P.export(globals())
