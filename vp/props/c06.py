"""C06 - exhausting RandomGen yields exactly the valid set; the reported count is exact.

Oracle: the multiset RandomGen returns when asked for more sequences than exist equals `ref.enumerate` (copies of
weighted levels of uncrossed factors count as distinct solutions) and the call terminates.  Count: where the documented
per-round metric unambiguously denotes the total (single round: no preamble, no leftover, trial count = crossing size)
and the design needs no rejection step (no complex-window factor, no constraint other than Exclude/MinimumTrials),
metrics['solution_count'] == number of valid sequences.
"""
from .. import design as D
from .. import env, lib as L, spec as S, strategies as G
from .c02 import compare, features_present
from .c04 import needs_rejection


def judge(ctx):
    spec = ctx.spec
    blk = ctx.block
    ctx.require_unambiguous(allow=("rcc-with-removal", "empty-crossing", "all-levels-excluded"))
    ctx.require_small()
    want = D.ref_counter(ctx.ref_enum())
    total = sum(want.values())
    if total > ctx.lim("max_seqs"):
        raise D.Skip("too-large:sequences")
    got, _ = ctx.synth("RandomGen", total + 3, block=ctx.fresh_built().block)
    ctx.nontrivial = len(want) >= 2 and features_present(spec)
    if not want:
        ctx.label("unsat")
    ctx.sample = {"spec": spec, "valid_sequences": total}
    ok = compare(ctx, D.exps_counter(got), want, "random")
    # ---- reported count
    r = ctx.ref
    infos = r.C["crossings"]
    single_round = (len(infos) == 1 and infos[0]["start"] == 0 and infos[0]["w"] == 1 and r.C["T"] == infos[0]["S"])
    if ok and single_round and want:
        import sweetpea as sp
        from sweetpea._internal.sampling_strategy import random as RM
        blk2 = ctx.fresh_built().block
        name = "_RandomGen__are_constraints_violated"
        orig = RM.RandomGen.__dict__.get(name)
        rejected = [0]

        def call():
            env.seed_library_rngs(D.lib_seed(spec))
            if orig is not None:
                fn = orig.__func__ if isinstance(orig, staticmethod) else orig

                def counting(*a, **k):
                    r = fn(*a, **k)
                    if r:
                        rejected[0] += 1
                    return r
                setattr(RM.RandomGen, name, staticmethod(counting))
            try:
                with env.quiet():
                    return sp.RandomGen.sample(blk2, total + 3)
            finally:
                if orig is not None:
                    setattr(RM.RandomGen, name, orig)
        res = ctx.lib_call("RandomGen.sample", call)
        m = res.metrics or {}
        # "designs that need no rejection step": structurally none expected AND none observed while exhausting
        if orig is not None and not needs_rejection(ctx) and rejected[0] == 0 and "solution_count" in m:
            ctx.label("count-checked")
            if m["solution_count"] != total:
                ctx.fail("reported-count", "metrics['solution_count'] = %r, the design has %d valid sequences (no candidate was rejected)"
                         % (m["solution_count"], total))
        else:
            ctx.label("count-not-checked:rejections")


CFG = G.cfg(round_share=3, blocks=("cross", "cross", "multi", "repeat", "merge", "nest"))
P = D.DesignProperty(
    "C06", judge,
    rule=("case = generated design spec in the reference domain with few enough valid sequences to enumerate; RandomGen is asked for "
          "3 more than exist; non-trivial = at least 2 distinct valid sequences and a derived factor, constraint or weight present; "
          "class count-checked = single-round designs without complex windows or rejection-enforced constraints; distinct = distinct spec JSON"),
    cfg_quick=CFG, n_quick=60, n_thorough=600, case_limit=(15, 120),
    limits={"max_T": {"quick": 7, "thorough": 9}, "max_seqs": {"quick": 800, "thorough": 4000}},
    assumptions=["vp/ref.py implements the documented semantics", "termination is judged by the per-case time limit: a time-out is inconclusive, not a violation"])
P.export(globals())
