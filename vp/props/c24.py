"""C24 - documented block-combinator equivalences hold.

Differential, both sides built from fresh objects through the public API (no reference model):
  multi=merge   MultiCrossBlock(design, crossings, cs, rcc, mode, alignment)
                == Merge([CrossBlock(design, c, [], rcc) for c in crossings], cs, mode, alignment)
  repeat=merge  Repeat(b, cs) == Merge([b], cs, REPEAT, EQUAL_PREAMBLE)
  repeat-empty  Repeat(b, []) == b            merge-single  Merge([b]) == b
  cross=multi1  CrossBlock(d, c, cs, rcc) == MultiCrossBlock(d, [c], cs, rcc, WEIGHT)
Equal means: both sides are accepted or both refused by the constructors, equal trials_per_sample, and equal multisets of
sequences when the compiled formulas are exhausted.
"""
import copy

from hypothesis import strategies as st

from .. import build as B
from .. import design as D
from .. import env, lib as L, spec as S, strategies as G

LAWS = ("multi=merge", "multi=merge", "repeat=merge", "repeat=merge", "repeat-empty", "merge-single", "cross=multi1")


@st.composite
def law_cases(draw, c):
    factors = draw(G.basic_factors(c))
    derived = draw(G.derived_factors(c, factors))
    spec = {"factors": factors, "derived": derived}
    law = draw(st.sampled_from(LAWS))
    names = [f["name"] for f in factors] + [d["name"] for d in derived]
    cand = G.crossable(factors, derived)
    rcc = not draw(st.booleans())

    def cons(block_for_T, kinds, n_max=2):
        spec["block"] = block_for_T
        T = G.estimate_T(spec)
        return [draw(G.constraint(c, spec, T, names, kinds=kinds)) for _ in range(draw(st.integers(0, n_max)))]
    all_kinds = tuple(k for k in c["constraints"])
    no_excl = tuple(k for k in all_kinds if k != "exclude")
    if law == "multi=merge":
        perm = list(draw(st.permutations(cand)))
        k = draw(st.integers(1, min(3, len(perm))))
        cuts = sorted(draw(st.lists(st.integers(1, len(perm)), min_size=k, max_size=k, unique=True)))
        crossings, prev = [], 0
        for cut in cuts:                       # disjoint crossings (Merge documents 'distinct sets of factors')
            crossings.append(perm[prev:cut][:2])
            prev = cut
        crossings = [x for x in crossings if x]
        mode = draw(st.sampled_from(["equal", "repeat", "weight", "repeat", "weight"]))
        align = draw(st.sampled_from(["equal preamble", "post preamble", "parallel start"]))
        lhs = {"type": "multi", "design": names, "crossings": crossings, "constraints": [], "rcc": rcc, "mode": mode, "alignment": align}
        cs = cons(copy.deepcopy(lhs), all_kinds)
        lhs["constraints"] = cs
    else:
        n = draw(st.integers(1, min(2, len(cand))))
        crossing = list(draw(st.permutations(cand))[:n])
        base = {"type": "cross", "design": names, "crossing": crossing, "constraints": [], "rcc": rcc}
        if law == "cross=multi1":
            cs = cons(copy.deepcopy(base), all_kinds)
            lhs = dict(base, constraints=cs)
        else:
            base["constraints"] = cons(copy.deepcopy(base), all_kinds, 1)
            if law == "repeat=merge":
                spec["block"] = base
                T = G.estimate_T(spec) or 2
                cs = [{"kind": "min", "k": draw(st.sampled_from([T + 1, 2 * T, 2 * T + 1, 3 * T, T]))}] if draw(st.integers(0, 4)) else []
                cs += cons(copy.deepcopy(base), no_excl, 1)
                lhs = {"type": "repeat", "block": base, "constraints": cs}
            elif law == "repeat-empty":
                lhs = {"type": "repeat", "block": base, "constraints": []}
            else:
                lhs = {"type": "merge", "blocks": [base], "constraints": [], "mode": "repeat", "alignment": None}
    spec["block"] = lhs
    spec["law"] = law
    return spec


def rhs_of(law, lhs):
    """the other side of the documented equivalence, derived from the left side (None if lhs is not an instance of the law)"""
    try:
        if law == "multi=merge" and lhs["type"] == "multi" and lhs["crossings"]:
            return {"type": "merge", "blocks": [{"type": "cross", "design": list(lhs["design"]), "crossing": list(x), "constraints": [],
                                                 "rcc": lhs["rcc"]} for x in lhs["crossings"]],
                    "constraints": copy.deepcopy(lhs["constraints"]), "mode": lhs["mode"], "alignment": lhs["alignment"]}
        if law == "cross=multi1" and lhs["type"] == "cross":
            return {"type": "multi", "design": list(lhs["design"]), "crossings": [list(lhs["crossing"])],
                    "constraints": copy.deepcopy(lhs["constraints"]), "rcc": lhs["rcc"], "mode": "weight", "alignment": "equal preamble"}
        if law == "repeat=merge" and lhs["type"] == "repeat":
            return {"type": "merge", "blocks": [copy.deepcopy(lhs["block"])], "constraints": copy.deepcopy(lhs["constraints"]),
                    "mode": "repeat", "alignment": "equal preamble"}
        if law == "repeat-empty" and lhs["type"] == "repeat" and not lhs["constraints"]:
            return copy.deepcopy(lhs["block"])
        if law == "merge-single" and lhs["type"] == "merge" and len(lhs["blocks"]) == 1 and not lhs["constraints"] \
                and lhs["mode"] == "repeat" and lhs.get("alignment") is None:
            return copy.deepcopy(lhs["blocks"][0])
    except (KeyError, TypeError):
        pass
    return None


def _build(spec, block):
    s2 = {"factors": spec["factors"], "derived": spec["derived"], "block": block}
    try:
        return B.build(s2), None
    except B.BuildRejected as e:
        return None, e


def judge(ctx):
    spec = ctx.spec
    law = spec.get("law", "?")
    rhs = rhs_of(law, spec["block"])
    if rhs is None:
        raise D.Skip("not-a-law-case")
    lb, le = _build(spec, spec["block"])
    rb, re_ = _build(spec, rhs)
    ctx.label("law:" + law)
    if (lb is None) != (rb is None):
        side, err = ("left", re_) if lb is not None else ("right", le)
        ctx.fail("accept-asym:" + law, "only the %s side constructs; the other raises %s" % (side, err))
        return
    if lb is None:
        raise D.Skip("both-rejected")
    with env.quiet():
        Tl, Tr = lb.block.trials_per_sample(), rb.block.trials_per_sample()
    if Tl != Tr:
        ctx.fail("trial-count:" + law, "left side has %d trials, right side %d" % (Tl, Tr))
        return
    if Tl > ctx.lim("max_T"):
        raise D.Skip("too-large:T")
    cap = ctx.lim("max_models")
    lres = ctx.lib_call("sat-left", lambda: L.exhaust_sat_inprocess(lb.block, cap))
    rres = ctx.lib_call("sat-right", lambda: L.exhaust_sat_inprocess(rb.block, cap))
    if not (lres[1] and rres[1]):
        raise D.Skip("too-large:models")
    lc, rc = D.exps_counter(lres[0]), D.exps_counter(rres[0])
    ingredient = {"multi=merge": len(spec["block"].get("crossings", [])) >= 2 or bool(spec["block"]["constraints"]),
                  "repeat=merge": bool(spec["block"]["constraints"]), "repeat-empty": True, "merge-single": True,
                  "cross=multi1": True}.get(law, False)
    ctx.nontrivial = len(lc) >= 2 and ingredient
    ctx.sample = {"law": law, "lhs": spec["block"], "rhs": rhs, "sequences": sum(lc.values())}
    if lc != rc:
        only_l = sorted(set(lc) - set(rc))
        only_r = sorted(set(rc) - set(lc))
        ex = (only_l or only_r or [k for k in lc if lc[k] != rc[k]])[0]
        ctx.fail("solutions-differ:" + law, "left %d sequences (%d distinct), right %d (%d distinct); e.g. %s: %r"
                 % (sum(lc.values()), len(lc), sum(rc.values()), len(rc), "left only" if only_l else "right only" if only_r else "multiplicity", dict(ex)))


CFG = G.cfg(max_derived=2, max_constraints=2)
P = D.DesignProperty(
    "C24", judge,
    rule=("case = (factors, derived factors, law, left block tree); the right side is derived from the left by the documented "
          "equivalence; non-trivial = at least 2 sequences and the law's distinguishing ingredient is present (>= 2 crossings or a constraint "
          "for multi=merge, a combinator constraint for repeat=merge); distinct = distinct case JSON"),
    cfg_quick=CFG, n_quick=60, n_thorough=700, case_limit=(20, 120), strategy=law_cases, uses_reference=False,
    limits={"max_T": {"quick": 8, "thorough": 10}, "max_models": {"quick": 1500, "thorough": 12000}},
    assumptions=["crossings of one MultiCrossBlock are disjoint (Merge documents 'distinct sets of factors in their crossings')",
                 "Repeat's constraints never contain Exclude (documented restriction)"])
P.export(globals())
