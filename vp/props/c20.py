"""C20 - output conversions preserve trials and hide internal factors.

Generator: small blocks built directly through the public API (level names are arbitrary values: text with spaces,
commas, quotes, line breaks; integers), optional weights on an uncrossed factor (makes the library introduce a hidden
factor), optional within-trial derived factor, 0-2 lenient run-length constraints (a constraint on a weighted uncrossed factor makes the
hidden factor part of the encoding), CrossBlock or MultiCrossBlock.  Experiments: the ones synthesize_trials
returns (RandomGen / IterateSATGen) and arbitrary well-formed ones (every user-declared factor mapped to T values drawn
from its level names by Hypothesis).
Oracle: experiments_to_tuples[e][t] == tuple(exp[f][t] for f in user factors in design order); experiments_to_dicts
likewise as dicts; CSV files prefix_<i>.csv read back with csv.reader: header = user factor names, T rows of str(value);
keys of synthesized experiments == user-declared factor names (nothing hidden leaks, nothing is missing).
"""
import csv
import os

from hypothesis import strategies as st

from .. import env, lib as L, runner
from ..runner import Acc

ID = "C20"
LEVEL = "exploration"
RULE = ("case = (factor/level description with arbitrary level-name values, weights, optional derived factor, crossing(s), "
        "experiment source, generated experiment cells); non-trivial = at least 2 user factors and at least 2 trials; "
        "distinct = distinct case JSON")
ASSUMPTIONS = ["level names within one factor are of one type (text or int) and pairwise distinct",
               "CSV cells are compared as str(value), the csv module's own quoting is trusted"]
CASE_LIMIT_S = 12

TEXT = st.text(alphabet=st.sampled_from(list("ab Z,;\"'|\n\t=0-é")), min_size=0, max_size=6)


@st.composite
def cases(draw):
    nf = draw(st.integers(1, 4))
    factors = []
    for i in range(nf):
        kind = draw(st.sampled_from(["text", "text", "int"]))
        n = draw(st.integers(1, 3))
        if kind == "int":
            names = draw(st.lists(st.integers(-3, 12), min_size=n, max_size=n, unique=True))
        else:
            names = draw(st.lists(TEXT, min_size=n, max_size=n, unique=True))
        weights = [draw(st.sampled_from([1, 1, 1, 2, 3])) for _ in names]
        factors.append({"name": draw(st.sampled_from(["f%d" % i, "factor %d" % i, "F,%d" % i])), "levels": [[a, w] for a, w in zip(names, weights)]})
    derived = None
    if draw(st.booleans()):
        arg = draw(st.integers(0, nf - 1))
        derived = {"name": "derived", "arg": arg, "salt": draw(st.integers(0, 50)), "names": draw(st.sampled_from([["d0", "d1"], ["same", "other, one"]]))}
    ncross = draw(st.integers(1, 2))
    crossings = []
    for _ in range(ncross):
        k = draw(st.integers(1, min(2, nf)))
        crossings.append(sorted(draw(st.lists(st.integers(0, nf - 1), min_size=k, max_size=k, unique=True))))
    source = draw(st.sampled_from(["RandomGen", "IterateSATGen", "arbitrary", "arbitrary"]))
    cons = []
    for _ in range(draw(st.integers(0, 2))):
        fi = draw(st.integers(0, nf - 1))
        cons.append({"kind": draw(st.sampled_from(["atmost", "exclude_none", "exactly_row"])), "factor": fi,
                     "level": draw(st.integers(0, len(factors[fi]["levels"]) - 1)), "k": draw(st.integers(1, 3))})
    case = {"factors": factors, "derived": derived, "crossings": crossings, "source": source, "constraints": cons,
            "n": draw(st.integers(1, 3)), "cells": draw(st.integers(0, 2 ** 30)), "prefix": draw(st.sampled_from(["experiment", "out put", "x"]))}
    return case


def _build(case):
    import sweetpea as sp
    fs = []
    for f in case["factors"]:
        fs.append(sp.Factor(f["name"], [sp.Level(n, w) if w > 1 else n for n, w in f["levels"]]))
    design = list(fs)
    if case["derived"]:
        d = case["derived"]
        arg = fs[d["arg"]]
        names = [l[0] for l in case["factors"][d["arg"]]["levels"]]

        def mk(i):
            return lambda v: ((names.index(v) + d["salt"]) % 2) == i
        design.append(sp.Factor(d["name"], [sp.DerivedLevel(d["names"][0], sp.WithinTrial(mk(0), [arg])),
                                            sp.DerivedLevel(d["names"][1], sp.WithinTrial(mk(1), [arg]))]))
    crossings = [[fs[i] for i in c] for c in case["crossings"]]
    cons = []
    for c in case.get("constraints", []):
        f = fs[c["factor"]]
        lv = f.levels[c["level"] % len(f.levels)]
        if c["kind"] == "atmost":
            cons.append(sp.AtMostKInARow(c["k"] + 1, (f, lv)))
        elif c["kind"] == "exactly_row":
            cons.append(sp.AtLeastKInARow(1, (f, lv)))
        else:
            cons.append(sp.AtMostKInARow(c["k"] + 3, f))
    if len(crossings) == 1:
        blk = sp.CrossBlock(design, crossings[0], cons)
    else:
        blk = sp.MultiCrossBlock(design, crossings, cons)
    return blk, design


def _valid(case):
    try:
        if not case["factors"] or len({f["name"] for f in case["factors"]}) != len(case["factors"]):
            return False
        for f in case["factors"]:
            names = [l[0] for l in f["levels"]]
            if not names or len(set(map(repr, names))) != len(names) or len({type(n) for n in names}) != 1:
                return False
            if any((not isinstance(l[1], int)) or l[1] < 1 for l in f["levels"]):
                return False
        nf = len(case["factors"])
        if not case["crossings"] or any((not c) or any(i < 0 or i >= nf for i in c) or len(set(c)) != len(c) for c in case["crossings"]):
            return False
        if case["derived"] and not (0 <= case["derived"]["arg"] < nf):
            return False
        return case["source"] in ("RandomGen", "IterateSATGen", "arbitrary") and 1 <= case["n"] <= 5
    except (KeyError, TypeError, IndexError):
        return False


def check_case(case):
    if not _valid(case):
        return []
    fails = []

    def fail(kind, msg):
        fails.append(runner.Failure(kind, case, msg))
    try:
        _check(case, fail)
    except env.CaseTimeout:
        raise
    except _Skip:
        return fails
    except Exception as e:
        fail("exception:" + env.exc_bucket(e), "%s: %s" % (type(e).__name__, e))
    return fails


class _Skip(Exception):
    pass


def _check(case, fail):
    import random
    import sweetpea as sp
    from sweetpea._internal.primitive import HiddenName
    try:
        with env.quiet():
            blk, design = _build(case)
    except Exception:
        case["_status"] = "constructor-rejected"
        raise _Skip()
    user_names = [f.name for f in design]
    with env.quiet():
        T = blk.trials_per_sample()
    case["_T"] = T
    if T > 9:
        case["_status"] = "too-large"
        raise _Skip()
    level_names = {f.name: [l.name for l in f.levels] for f in design}
    if case["source"] == "arbitrary":
        rng = random.Random(case["cells"])
        exps = [{n: [rng.choice(level_names[n]) for _ in range(T)] for n in user_names} for _ in range(case["n"])]
    else:
        try:
            exps, _ = L.synth(blk, case["n"], case["source"], case["cells"])
        except env.CaseTimeout:
            raise
        except Exception:
            case["_status"] = "lib-exception"
            raise _Skip()
        for i, e in enumerate(exps):
            hidden = [k for k in e if isinstance(k, HiddenName) or k not in user_names]
            if hidden:
                fail("hidden-factor-exposed", "experiment %d returned by synthesize_trials has keys %r beyond the declared factors" % (i, [str(k) for k in hidden]))
            missing = [n for n in user_names if n not in e]
            if missing:
                fail("declared-factor-missing", "experiment %d lacks declared factors %r" % (i, missing))
                return
        if not exps:
            case["_status"] = "no-experiments"
            raise _Skip()
    case["_hidden"] = any(isinstance(f.name, HiddenName) for f in blk.design)
    with env.quiet():
        tup = sp.experiments_to_tuples(blk, exps)
        dic = sp.experiments_to_dicts(blk, exps)
    if len(tup) != len(exps) or len(dic) != len(exps):
        fail("conversion-count", "%d experiments became %d tuple lists / %d dict lists" % (len(exps), len(tup), len(dic)))
        return
    for i, e in enumerate(exps):
        want_t = [tuple(e[n][t] for n in user_names) for t in range(T)]
        want_d = [{n: e[n][t] for n in user_names} for t in range(T)]
        if [tuple(x) for x in tup[i]] != want_t:
            fail("tuples-differ", "experiment %d: experiments_to_tuples gave %r, expected %r" % (i, tup[i][:3], want_t[:3]))
        if list(dic[i]) != want_d:
            fail("dicts-differ", "experiment %d: experiments_to_dicts gave %r, expected %r" % (i, dic[i][:2], want_d[:2]))
    prefix = os.path.join(os.getcwd(), case["prefix"])
    with env.quiet():
        sp.save_experiments_csv(blk, exps, prefix)
    for i, e in enumerate(exps):
        path = "%s_%d.csv" % (prefix, i)
        if not os.path.exists(path):
            fail("csv-missing", "no file %s" % os.path.basename(path))
            continue
        with open(path, newline='') as fh:
            rows = list(csv.reader(fh))
        os.unlink(path)
        want = [list(map(str, user_names))] + [[str(e[n][t]) for n in user_names] for t in range(T)]
        if rows != want:
            fail("csv-differs", "experiment %d: csv rows %r, expected %r" % (i, rows[:3], want[:3]))
    extra = [f for f in os.listdir(os.getcwd()) if f.startswith(case["prefix"] + "_") and f.endswith(".csv")]
    if extra:
        fail("csv-extra-files", "unexpected files %r" % extra)


def _labels(case):
    labs = ["source=" + case["source"], "crossings=%d" % len(case["crossings"])]
    if case.get("_hidden"):
        labs.append("has-hidden-factor")
    if case["derived"]:
        labs.append("has-derived")
    if case.get("constraints"):
        labs.append("has-constraint")
    if any(isinstance(l[0], int) for f in case["factors"] for l in f["levels"]):
        labs.append("int-level-names")
    if any(isinstance(l[0], str) and any(ch in l[0] for ch in ',"\n') for f in case["factors"] for l in f["levels"]):
        labs.append("names-need-csv-quoting")
    return labs


def _run_hyp(arg):
    seed_value, n = arg
    acc = runner.track(Acc())

    def body(case):
        try:
            with env.time_limit(CASE_LIMIT_S):
                fs = check_case(case)
        except env.CaseTimeout:
            acc.inconclusive += 1
            return
        finally:
            env.clean_cwd_files()
        st_ = case.pop("_status", None)
        T = case.pop("_T", 0)
        hidden = case.pop("_hidden", False)
        if st_:
            acc.discard(st_)
            return
        labs = _labels(dict(case, _hidden=hidden))
        acc.case(case, len(case["factors"]) + (1 if case["derived"] else 0) >= 2 and T >= 2, labs)
        for f in fs:
            f["case"].pop("_status", None), f["case"].pop("_T", None), f["case"].pop("_hidden", None)
            acc.fail(f["bucket"], f["case"], f["message"])
    runner.drive(cases(), body, n, seed_value)
    return acc


def run(tier, seed):
    n = 90 if tier == "quick" else 2500
    return runner.run_jobs(_run_hyp, [(runner.shard_seed(seed, i), n) for i in range(16)])
