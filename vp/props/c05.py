"""C05 - RandomGen samples uniformly: one accepted candidate per valid sequence.

Oracle: the exact draw tree of one candidate (vp/drawtree.py).  Probabilities sum to 1 (harness self-check); every accepted
leaf is a valid sequence (reference); every valid sequence is reached; and the probability mass of a sequence divided by
its reference multiplicity (copies of weighted levels outside the crossing print identically) is the same for all
sequences - i.e. one requested sample is uniform over the valid solutions.  Exact arithmetic, nothing statistical.
"""
from collections import defaultdict
from fractions import Fraction

from .. import design as D
from .. import drawtree, env, lib as L, strategies as G
from .c02 import features_present


def judge(ctx):
    spec = ctx.spec
    blk = ctx.block
    ctx.require_unambiguous(allow=("rcc-with-removal", "empty-crossing", "all-levels-excluded"))
    ctx.require_small()
    want = D.ref_counter(ctx.ref_enum())
    if sum(want.values()) > ctx.lim("max_seqs"):
        raise D.Skip("too-large:sequences")
    try:
        leaves = drawtree.explore(blk, ctx.lim("max_leaves"))
    except drawtree.TooLarge:
        raise D.Skip("too-large:draw-tree")
    except env.CaseTimeout:
        raise
    except Exception as e:
        raise D.Skip("lib-exception:RandomGen:%s" % env.exc_bucket(e))       # C08's business
    total = sum(p for p, _ in leaves)
    if total != 1:
        raise RuntimeError("draw tree probabilities sum to %s (harness error)" % total)
    mass = defaultdict(Fraction)
    rejected = Fraction(0)
    for p, out in leaves:
        if out is None or out == "EMPTY":
            rejected += p
        else:
            with env.quiet():
                full = blk.add_implied_levels(dict(out))      # what synthesize_trials does with a sampler's result
            mass[L.canon(L.visible(full))] += p
    ctx.label("rejection" if rejected else "no-rejection")
    ctx.nontrivial = len(want) >= 2 and (features_present(spec) or rejected > 0)
    ctx.sample = {"spec": spec, "leaves": len(leaves), "valid_sequences": len(want), "rejected_mass": str(rejected)}
    ctx.P_extra = None
    for k in mass:
        if k not in want:
            ok, why = ctx.ref.is_valid(D.exp_to_seq(dict(k)))
            ctx.fail("accepted-invalid", "an accepted candidate is the invalid sequence %r (%s)" % (dict(k), why))
            return
    missing = [k for k in want if k not in mass]
    if missing:
        ctx.fail("valid-sequence-unreachable", "no candidate yields the valid sequence %r (%d of %d valid sequences unreachable)"
                 % (dict(missing[0]), len(missing), len(want)))
        return
    per = {k: mass[k] / want[k] for k in want}
    vals = sorted(set(per.values()))
    if len(vals) > 1:
        lo = min(per, key=per.get)
        hi = max(per, key=per.get)
        ctx.fail("nonuniform", "probability per solution ranges from %s (%r) to %s (%r); %d distinct values over %d sequences"
                 % (per[lo], dict(lo), per[hi], dict(hi), len(vals), len(per)))


CFG = G.cfg(max_levels=3, max_factors=3, max_derived=1, p_weight=0.15, max_constraints=2, small_uncrossed=True, round_skeleton=True, round_share=3,
            constraints=("exclude", "min", "pin", "atmost", "atleast", "exactly_k", "exactly_row"), kind_weight={"exclude": 3, "min": 3, "pin": 1})
P = D.DesignProperty(
    "C05", judge,
    rule=("case = generated design spec in the reference domain whose complete draw tree has at most max_leaves leaves; ALL sequences of "
          "randrange outcomes of one candidate are enumerated with exact probabilities; non-trivial = at least 2 valid sequences and "
          "(rejection occurs or a derived factor / constraint / weight is present); distinct = distinct spec JSON"),
    cfg_quick=CFG, n_quick=250, n_thorough=1500, case_limit=(30, 240),
    limits={"max_T": {"quick": 8, "thorough": 10}, "max_seqs": {"quick": 600, "thorough": 4000}, "max_leaves": {"quick": 5000, "thorough": 40000}},
    assumptions=["random.randrange itself is uniform (the tree weights every outcome of randrange(n) with 1/n)",
                 "vp/ref.py implements the documented semantics"])
P.export(globals())
