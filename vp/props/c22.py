"""C22 - continuous factors respect their constraints, inputs and windows.

Generator: a small discrete design (reference domain) plus 1-3 continuous factors: built-in distributions, a free custom
function, and derived ones (CustomDistribution with a PURE catalogue function over same-trial continuous values, discrete
levels and ContinuousFactorWindows with width 1-3, stride 1-3, start None/0..3; some cumulative), plus ContinuousConstraints
with high per-trial acceptance.
Oracle, per returned sequence: one value per trial per continuous factor; every constraint predicate true at every trial;
each derived value equals the catalogue function applied to the RETURNED same-trial values and, for windows, to the
documented window {0: v[t], -1: v[t-1], ...} with every entry NaN when t < start or the trial is skipped by the stride and
an individual entry NaN when its index is negative; the discrete part passes the reference validity predicate.
"""
import math

from hypothesis import strategies as st

from .. import cont
from .. import design as D
from .. import env, lib as L, strategies as G


@st.composite
def cases(draw, c):
    spec = draw(G.design_spec(c))
    basics = [f["name"] for f in spec["factors"] if f["name"] in spec["block"]["design"]]
    cs, cc = draw(cont.continuous_specs(basics))
    spec["continuous"] = cs
    spec["ccons"] = cc
    spec["strategy"] = draw(st.sampled_from(["RandomGen", "IterateSATGen", "CMSGen", "IterateGen"]))
    return spec


def check_sequence(ctx, e, T, level_index):
    spec = ctx.spec
    cols = {str(k): list(v) for k, v in e.items()}
    for cs in spec["continuous"]:
        n = cs["name"]
        if n not in cols:
            ctx.fail("continuous-column-missing", "no column for continuous factor %s" % n)
            return False
        if len(cols[n]) != T:
            ctx.fail("continuous-column-length", "%s has %d values for %d trials" % (n, len(cols[n]), T))
            return False
        if any(not isinstance(v, (int, float)) for v in cols[n]):
            ctx.fail("continuous-value-type", "%s contains non-numeric values %r" % (n, cols[n][:3]))
            return False
    for cc in spec.get("ccons", []):
        for t in range(T):
            if not cont.holds(cc, [cols[n][t] for n in cc["factors"]]):
                ctx.fail("continuous-constraint-violated", "constraint %r is false at trial %d: %r" % (cc, t, [cols[n][t] for n in cc["factors"]]))
                return False
    for cs in spec["continuous"]:
        if cs["kind"] != "derived":
            continue
        want = cont.expected_column(cs, cols, T, level_index)
        got = cols[cs["name"]]
        for t in range(T):
            if not cont.same(float(got[t]), float(want[t])):
                ctx.fail("derived-continuous-value:" + ("window" if any("w" in d for d in cs["deps"]) else "same-trial"),
                         "%s[%d] = %r, recomputed from the returned values: %r (factor %r)" % (cs["name"], t, got[t], want[t], cs))
                return False
    return True


def judge(ctx):
    spec = ctx.spec
    if not spec.get("continuous"):
        raise D.Skip("no-continuous-factor")
    blk = ctx.block
    ctx.require_unambiguous(allow=("rcc-with-removal", "empty-crossing", "all-levels-excluded"))
    ctx.require_small()
    r = ctx.ref
    T = ctx.T_lib
    level_index = {l[0]: i + 1 for f in spec["factors"] for i, l in enumerate(f["levels"])}
    g = spec.get("strategy", "RandomGen")
    res, _ = ctx.lib_call(g, lambda: L.synth(blk, 3, g, D.lib_seed(spec)))
    derived = [cs for cs in spec["continuous"] if cs["kind"] == "derived"]
    ctx.nontrivial = bool(res) and bool(derived or spec.get("ccons"))
    if any("w" in d for cs in derived for d in cs["deps"]):
        ctx.label("has-window")
    if any(cs.get("cumulative") for cs in derived):
        ctx.label("has-cumulative")
    if spec.get("ccons"):
        ctx.label("has-continuous-constraint")
    ctx.label("strategy:" + g)
    cnames = {cs["name"] for cs in spec["continuous"]}
    for e in res:
        e = L.visible(e)
        if not check_sequence(ctx, e, T, level_index):
            return
        seq = {k: v for k, v in D.exp_to_seq(e).items() if k not in cnames}
        ok, why = r.is_valid(seq)
        if not ok:
            ctx.fail("discrete-part-invalid", "the discrete part %r violates the design: %s" % (seq, why))
            return
    ctx.sample = {"spec": spec, "sequences": len(res)}


CFG = G.cfg(max_factors=2, max_derived=1, max_constraints=1, max_levels=3, explicit_start=False)
P = D.DesignProperty(
    "C22", judge,
    rule=("case = generated discrete design plus 1-3 continuous factor specs, continuous constraints and a sampling strategy; up to 3 "
          "sequences are judged; non-trivial = at least one sequence returned and a derived continuous factor or a continuous "
          "constraint is present; distinct = distinct case JSON"),
    cfg_quick=CFG, n_quick=160, n_thorough=800, case_limit=(15, 90), strategy=cases,
    limits={"max_T": {"quick": 9, "thorough": 14}},
    assumptions=["catalogue functions are pure and NaN-aware so that the expected value can be recomputed from the returned values regardless of resampling rounds",
                 "float comparison with relative tolerance 1e-9, NaN compared with isnan"])
P.export(globals())
