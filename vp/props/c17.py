"""C17 - the mismatch checker accepts exactly the valid sequences.

Candidates (all well-formed: one level name per trial for every user-visible factor, '' exactly where a derived factor
does not apply): valid sequences from the reference enumeration and, for each, perturbations drawn from the case's aux
seed - change one basic cell, swap two trials, rotate (derived columns recomputed, so only crossing / constraint
validity is at stake), corrupt one derived cell (derivation validity) - plus random basic sequences with derived columns
recomputed.  Oracle: sample_mismatch_experiment(block, seq) == {}  <=>  ref.is_valid(seq).
"""
import copy
import random

from .. import design as D
from .. import env, strategies as G
from .c02 import features_present


def recompute(r, seq):
    T = r.C["T"]
    for f in r.C["design"]:
        if f in r.derived:
            col = []
            seq[f] = col
            for t in range(T):
                if r.applicable(f, t):
                    v = r.derive(f, seq, t)
                    col.append(v if isinstance(v, str) else r.level_names[f][0])
                else:
                    col.append('')
    return seq


def perturbations(r, seq, rng, n):
    T = r.C["T"]
    basics = [f for f in r.C["design"] if f in r.basic]
    derived = [f for f in r.C["design"] if f in r.derived]
    out = []
    for _ in range(n):
        s = copy.deepcopy(seq)
        kind = rng.choice(["cell", "cell", "swap", "rotate", "derived", "derived"])
        if kind == "cell" and basics:
            f = rng.choice(basics)
            t = rng.randrange(T)
            others = [l for l in r.level_names[f] if l != s[f][t]]
            if not others:
                continue
            s[f][t] = rng.choice(others)
            recompute(r, s)
        elif kind == "swap" and T >= 2:
            a, b = rng.sample(range(T), 2)
            for f in basics:
                s[f][a], s[f][b] = s[f][b], s[f][a]
            recompute(r, s)
        elif kind == "rotate" and T >= 2:
            k = rng.randrange(1, T)
            for f in basics:
                s[f] = s[f][k:] + s[f][:k]
            recompute(r, s)
        elif kind == "derived" and derived:
            f = rng.choice(derived)
            ts = [t for t in range(T) if r.applicable(f, t)]
            if not ts:
                continue
            t = rng.choice(ts)
            others = [l for l in r.level_names[f] if l != s[f][t]]
            if not others:
                continue
            s[f][t] = rng.choice(others)
        else:
            continue
        out.append((kind, s))
    return out


def judge(ctx):
    import sweetpea as sp
    spec = ctx.spec
    blk = ctx.block
    ctx.require_unambiguous(allow=("rcc-with-removal", "empty-crossing", "all-levels-excluded"))
    ctx.require_small()
    r = ctx.ref
    if r.C["T"] is None:
        raise D.Skip("trial-count-unspecified")
    if ctx.T_lib != r.C["T"]:
        raise D.Skip("trial-count-differs (C16)")
    rng = random.Random(spec.get("aux", 0))
    T = r.C["T"]
    cands = []
    valid = ctx.ref_enum()
    keys = sorted(valid)
    rng.shuffle(keys)
    for k in keys[:ctx.lim("n_valid")]:
        seq = {n: list(v) for n, v in k}
        cands.append(("valid", seq))
        cands.extend(perturbations(r, seq, rng, ctx.lim("n_perturb")))
    basics = [f for f in r.C["design"] if f in r.basic]
    for _ in range(ctx.lim("n_random")):
        seq = {f: [rng.choice(r.level_names[f]) for _ in range(T)] for f in basics}
        cands.append(("random", recompute(r, seq)))
    verdicts = {True: 0, False: 0}
    for kind, seq in cands:
        want, why = r.is_valid(seq)
        sample = {n: list(seq[n]) for n in r.C["design"]}
        try:
            with env.quiet():
                got = sp.sample_mismatch_experiment(blk, sample)
        except env.CaseTimeout:
            raise
        except Exception as e:
            ctx.fail("checker-raises:" + env.exc_bucket(e), "%s: %s on candidate %r" % (type(e).__name__, str(e)[:200], seq))
            return
        ok = (got == {})
        verdicts[want] += 1
        ctx.label("candidate:" + kind)
        if ok != want:
            if want:
                ctx.fail("rejects-valid", "valid sequence %r is reported as mismatch %r" % (seq, got))
            else:
                ctx.fail("accepts-invalid:" + kind, "invalid sequence %r (%s) is reported without mismatch" % (seq, why))
            return
    ctx.nontrivial = verdicts[True] > 0 and verdicts[False] > 0 and features_present(spec)
    ctx.sample = {"spec": spec, "valid_candidates": verdicts[True], "invalid_candidates": verdicts[False]}


CFG = G.cfg(aux=True, blocks=("cross", "cross", "multi", "repeat", "merge", "nest"))
P = D.DesignProperty(
    "C17", judge,
    rule=("case = generated design spec in the reference domain plus an aux seed; candidates = up to n_valid valid sequences, n_perturb "
          "perturbations of each and n_random random well-formed sequences; non-trivial = the candidate set contains both verdicts and "
          "the design has a derived factor, constraint or weight; distinct = distinct spec JSON"),
    cfg_quick=CFG, n_quick=60, n_thorough=700, case_limit=(15, 120),
    limits={"max_T": {"quick": 7, "thorough": 9}, "max_seqs": {"quick": 300, "thorough": 3000},
            "n_valid": {"quick": 6, "thorough": 20}, "n_perturb": {"quick": 4, "thorough": 8}, "n_random": {"quick": 6, "thorough": 20}},
    assumptions=["vp/ref.py implements the documented semantics", "candidates are well-formed as the property requires"])
P.export(globals())
