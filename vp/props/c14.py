"""C14 - trial/factor/level variables are allocated and decoded consistently.

Oracle: the reference applicability rule (documentation: a derived factor with window (width, stride, start) has a
level at trial t iff t >= start and (t - start) mod stride == 0; basic factors always) gives the set of applicable
(trial, factor, level) triples of the factors the solver decides.  `block.get_variable` must be injective on it and
onto 1..variables_per_sample; every other variable of the compiled formula lies above that range; support_variables()
lies inside it.  Decoding: for one-hot assignments drawn from the case's aux seed, `Gen.decode` returns exactly the
chosen names, '' where the factor does not apply, lists of length T.
"""
import random

from .. import design as D
from .. import env, lib as L, spec as S, strategies as G


def judge(ctx):
    spec = ctx.spec
    blk = ctx.block
    ctx.require_small()
    r = ctx.ref                      # only its applicability rule (start / stride) is used; no ambiguity filter needed
    T = ctx.T_lib
    from sweetpea._internal.primitive import DerivedFactor
    from sweetpea._internal.sampling_strategy.base import Gen
    act = list(blk.act_design)
    sus = {f: blk.sustain_count(f) for f in act}

    def applicable(f, t):            # t 0-based
        name = f.name
        if isinstance(name, str) and name in r.derived:
            return r.applicable(name, t // sus[f])
        return True

    triples = {}
    clash = None
    for t in range(T):
        for f in act:
            if not applicable(f, t):
                continue
            for lv in f.levels:
                try:
                    with env.quiet():
                        v = blk.get_variable(t + 1, (f, lv))
                except Exception as e:
                    ctx.fail("get-variable-raises:" + env.exc_bucket(e), "trial %d factor %s level %s: %s" % (t, f.name, lv.name, e))
                    return
                if v in triples and clash is None:
                    clash = (v, triples[v], (t, str(f.name), str(lv.name)))
                triples.setdefault(v, (t, str(f.name), str(lv.name)))
    vps = blk.variables_per_sample()
    if clash:
        ctx.fail("variable-shared", "variable %d encodes both %r and %r" % clash)
    want = set(range(1, vps + 1))
    got = set(triples)
    if got != want:
        ctx.fail("variable-range", "variables of the applicable (trial, factor, level) choices are not exactly 1..%d: missing %s, "
                 "outside %s" % (vps, sorted(want - got)[:6], sorted(got - want)[:6]))
    try:
        sv = set(blk.support_variables())
        if not sv <= want:
            ctx.fail("support-outside-range", "support_variables() has %s outside 1..%d" % (sorted(sv - want)[:6], vps))
    except Exception as e:
        ctx.fail("support-raises:" + env.exc_bucket(e), str(e))
    complex_f = [f for f in act if isinstance(f, DerivedFactor) and f.has_complex_window]
    has_excl = any(c["kind"] == "exclude" for c in S.all_constraints(spec["block"]))
    ctx.nontrivial = bool(complex_f or has_excl or any(s > 1 for s in sus.values()))
    if complex_f:
        ctx.label("has-complex-window-factor")
    if clash or got != want:
        return
    # ---- decoding of one-hot assignments
    rng = random.Random(spec.get("aux", 0))
    for _ in range(6):
        chosen = {}
        lits = {}
        for t in range(T):
            for f in act:
                if not applicable(f, t):
                    continue
                pick = rng.randrange(len(f.levels))
                for i, lv in enumerate(f.levels):
                    v = blk.get_variable(t + 1, (f, lv))
                    lits[v] = (i == pick)
                chosen[(t, f)] = f.levels[pick].name
        solution = [v if b else -v for v, b in sorted(lits.items())]
        try:
            with env.quiet():
                exp = Gen.decode(blk, list(solution))
        except Exception as e:
            ctx.fail("decode-raises:" + env.exc_bucket(e), "%s: %s" % (type(e).__name__, e))
            return
        for f in act:
            col = exp.get(f.name)
            wantcol = [chosen.get((t, f), '') for t in range(T)]
            if col is None:
                ctx.fail("decode-missing-factor", "factor %s absent from the decoded experiment" % f.name)
                return
            if list(col) != wantcol:
                ctx.fail("decode-wrong", "factor %s decoded as %r, the assignment chose %r" % (f.name, list(col), wantcol))
                return
        extra = [k for k in exp if k not in [f.name for f in act]]
        if extra:
            ctx.fail("decode-extra-factor", "decoded experiment has unexpected keys %r" % extra)
            return


CFG = G.cfg(aux=True, constraints=("exclude", "pin", "min", "atmost", "exactly_k"), blocks=("cross", "cross", "multi", "repeat", "merge", "nest"))
P = D.DesignProperty(
    "C14", judge,
    rule=("case = generated design spec accepted by the constructor plus an aux seed that selects 6 one-hot assignments; "
          "all applicable (trial, factor, level) triples are enumerated; non-trivial = the design has a complex-window "
          "derived factor among the solver-decided factors, an Exclude constraint or a sustained factor; distinct = distinct spec JSON"),
    cfg_quick=CFG, n_quick=150, n_thorough=1500, case_limit=(20, 60),
    limits={"max_T": {"quick": 12, "thorough": 20}},
    assumptions=["applicability follows the documented start/stride rule (vp/ref.py), the rest is observed from the block"])
P.export(globals())
