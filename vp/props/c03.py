"""C03 - each trial sequence is exactly one model of the compiled formula.

Oracle (no reading of the documentation needed): take `build_cnf(block)`; for every model projected on the
trial-sequence variables 1..variables_per_sample (capped), all remaining variables that occur in the formula must be
forced: solve, block the auxiliary part, re-solve under the same projected assignment => must be UNSAT.  When the total
number of models is small it is also counted outright and compared with the projected count.
"""
from .. import design as D
from .. import env, lib as L, satutil, strategies as G


def judge(ctx):
    blk = ctx.block
    ctx.require_small()
    clauses = ctx.lib_call("build_cnf", lambda: L.cnf_clauses(blk))
    with env.quiet():
        if blk.show_errors():
            raise D.Skip("design-reports-errors")
    vps = blk.variables_per_sample()
    allv = satutil.all_vars(clauses)
    aux = sorted(v for v in allv if v > vps)
    support = list(range(1, vps + 1))
    cap = ctx.lim("max_models")
    ms = satutil.models(clauses, support, cap=cap + 1)
    if len(ms) > cap:
        ctx.label("models-capped")
        ms = ms[:cap]
    ctx.label("aux=%s" % ("0" if not aux else "1-50" if len(aux) <= 50 else "51-500" if len(aux) <= 500 else ">500"))
    ctx.nontrivial = len(ms) >= 2 and len(aux) >= 1
    if not ms:
        ctx.label("unsat")
        return
    s = satutil.Sat(clauses, extra_vars=vps)
    step = max(1, len(ms) // ctx.lim("max_checked"))
    checked = 0
    for m in ms[::step]:
        assum = [v if b else -v for v, b in zip(support, m)]
        n = s.count_extensions(assum, aux, cap=2)
        checked += 1
        if n != 1:
            # name a free auxiliary variable to make the replay readable
            ctx.fail("aux-not-forced", "a trial-sequence assignment has %s extensions to the %d auxiliary variables"
                     % ("no" if n == 0 else "at least two", len(aux)))
            break
    ctx.sample = {"spec": ctx.spec, "projected_models": len(ms), "aux_vars": len(aux), "assignments_checked": checked}


CFG = G.cfg(blocks=("cross", "cross", "multi", "repeat", "merge", "nest"))
P = D.DesignProperty(
    "C03", judge,
    rule=("case = generated design spec accepted by the constructor; its formula is built with build_cnf; up to max_checked "
          "projected models (evenly spaced over all enumerated ones) are tested for a unique extension to all auxiliary "
          "variables; non-trivial = at least 2 projected models and at least one auxiliary variable; distinct = distinct spec JSON"),
    cfg_quick=CFG, n_quick=60, n_thorough=700, case_limit=(30, 120),
    limits={"max_T": {"quick": 8, "thorough": 12}, "max_models": {"quick": 600, "thorough": 4000},
            "max_checked": {"quick": 200, "thorough": 1500}},
    assumptions=["pycryptosat is a correct SAT solver",
                 "variables that occur in no clause are judged under C27 (header) and not here"])
P.export(globals())
