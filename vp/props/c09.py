"""C09 - without-replacement samplers return distinct sequences, as many as exist.

Oracle: the reference's total number of solutions n_ref (with multiplicities for copies of weighted levels of factors
outside the crossing) and per-sequence multiplicity.  For IterateSATGen, RandomGen and IterateGen and a requested
n in {1, n_ref-1, n_ref, n_ref+3} (chosen by the case's aux seed; small designs are additionally always exhausted): len(result) == min(n, n_ref); no name-sequence occurs
more often than its reference multiplicity (identical printing only for copy choices); equality when exhausting.
"""
import random

from .. import design as D
from .. import strategies as G
from .c02 import features_present


def judge(ctx):
    spec = ctx.spec
    blk = ctx.block
    ctx.require_unambiguous(allow=("rcc-with-removal", "empty-crossing", "all-levels-excluded"))
    ctx.require_small()
    want = D.ref_counter(ctx.ref_enum())
    n_ref = sum(want.values())
    if n_ref > ctx.lim("max_seqs"):
        raise D.Skip("too-large:sequences")
    rng = random.Random(spec.get("aux", 0))
    opts = sorted({1, max(1, n_ref - 1), max(1, n_ref), n_ref + 3})
    has_copies = any(m > 1 for m in want.values())
    if has_copies:
        ctx.label("has-copies")
    ctx.nontrivial = n_ref >= 2
    ctx.sample = {"spec": spec, "n_ref": n_ref}
    requests = []
    for g in ("IterateSATGen", "RandomGen", "IterateGen"):
        n = rng.choice(opts)
        requests.append((g, n))
        if n != n_ref + 3 and n_ref <= ctx.lim("always_exhaust"):
            requests.append((g, n_ref + 3))          # exhausting always shows duplicates and over-counts
    for g, n in requests:
        got, _ = ctx.synth(g, n, block=ctx.fresh_built().block)
        ctx.label("requested-%s" % ("more" if n > n_ref else "all" if n == n_ref else "fewer"))
        if len(got) != min(n, n_ref):
            ctx.fail("count:" + g, "%s: requested %d, %d solutions exist, returned %d" % (g, n, n_ref, len(got)))
            continue
        c = D.exps_counter(got)
        over = [k for k, v in c.items() if v > want.get(k, 0)]
        if over:
            k = over[0]
            ctx.fail("repeated:" + g, "%s returned %r %d times; it has %d distinct solution(s) of that printing"
                     % (g, dict(k), c[k], want.get(k, 0)))
            continue
        if n >= n_ref and c != want:
            ctx.fail("exhaustion-incomplete:" + g, "%s returned %d sequences but not the reference multiset" % (g, len(got)))


CFG = G.cfg(aux=True, p_weight=0.35, round_share=3, blocks=("cross", "cross", "multi", "repeat", "merge", "nest"))
P = D.DesignProperty(
    "C09", judge,
    rule=("case = generated design spec in the reference domain (<= max_seqs solutions) plus an aux seed choosing the requested count "
          "per strategy from {1, n_ref-1, n_ref, n_ref+3}; non-trivial = n_ref >= 2; class has-copies = some printing has multiplicity > 1; "
          "distinct = distinct spec JSON"),
    cfg_quick=CFG, n_quick=60, n_thorough=700, case_limit=(15, 120),
    limits={"max_T": {"quick": 7, "thorough": 9}, "max_seqs": {"quick": 600, "thorough": 2500}, "always_exhaust": {"quick": 60, "thorough": 300}},
    assumptions=["vp/ref.py implements the documented semantics including multiplicities of weighted levels outside the crossing"])
P.export(globals())
