"""C11 - formula-to-CNF conversions preserve meaning.

Oracle: truth table over the original variables computed by an evaluator written here.
  tseitin : for every assignment, #extensions over the reported fresh range satisfying the result = 1 if the formula is
            true, else 0; no variable outside original + reported fresh range; cnf_to_json accepts the result and yields
            the same clause list as our own flattening (that list is what the solvers receive).
  naive   : same truth table, no new variable, next_variable unchanged.
  switching: exists-fresh gives the same truth table, fresh variables only from the reported range.
An exception from a converter on an in-domain formula is a failure.
"""
import itertools
import os
import sys

from hypothesis import strategies as st

from .. import env, runner, satutil
from ..runner import Acc

ID = "C11"
LEVEL = "exploration"
RULE = ("case = (formula tree over literals +-1..+-5 with Not/And/Or/If/Iff, list sizes 0-3, subtrees re-drawn from a pool so "
        "equal subformulas recur, next_variable in {6,9}); all 2^|vars| assignments checked for each converter; "
        "non-trivial = at least 2 connectives; distinct = distinct (formula, next_variable); thorough adds a "
        "coverage-guided atheris campaign over the same strategy (fuzz_one_input) when atheris is importable")
ASSUMPTIONS = ["variables of the formula are smaller than next_variable (every caller allocates fresh variables above the formula's)",
               "naive conversion is only run on formulas with <= 10 leaves (it is exponential by design)"]
CASE_LIMIT_S = 20


# ------------------------------------------------------------------ JSON formula <-> library objects

def build(j):
    from sweetpea._internal.logic import And, If, Iff, Not, Or
    if isinstance(j, int):
        return j
    op = j[0]
    if op == "and":
        return And([build(x) for x in j[1]])
    if op == "or":
        return Or([build(x) for x in j[1]])
    if op == "not":
        return Not(build(j[1]))
    if op == "if":
        return If(build(j[1]), build(j[2]))
    if op == "iff":
        return Iff(build(j[1]), build(j[2]))
    raise ValueError(op)


def valid_formula(j, depth=0):
    if isinstance(j, bool):
        return False
    if isinstance(j, int):
        return j != 0 and abs(j) <= 5
    if not isinstance(j, list) or not j or depth > 10:
        return False
    if j[0] in ("and", "or"):
        return len(j) == 2 and isinstance(j[1], list) and all(valid_formula(x, depth + 1) for x in j[1])
    if j[0] == "not":
        return len(j) == 2 and valid_formula(j[1], depth + 1)
    if j[0] in ("if", "iff"):
        return len(j) == 3 and valid_formula(j[1], depth + 1) and valid_formula(j[2], depth + 1)
    return False


def ev_json(j, a):
    if isinstance(j, int):
        return a[j] if j > 0 else not a[-j]
    op = j[0]
    if op == "and":
        return all(ev_json(x, a) for x in j[1])
    if op == "or":
        return any(ev_json(x, a) for x in j[1])
    if op == "not":
        return not ev_json(j[1], a)
    if op == "if":
        return (not ev_json(j[1], a)) or ev_json(j[2], a)
    if op == "iff":
        return ev_json(j[1], a) == ev_json(j[2], a)
    raise ValueError(op)


def ev_obj(f, a):
    """evaluate a library formula object (And/Or/Not/If/Iff namedtuples, ints) by structure"""
    if isinstance(f, int):
        return a[f] if f > 0 else not a[-f]
    name = type(f).__name__
    if name == "And":
        return all(ev_obj(x, a) for x in f.input_list)
    if name == "Or":
        return any(ev_obj(x, a) for x in f.input_list)
    if name == "Not":
        return not ev_obj(f.c, a)
    if name == "If":
        return (not ev_obj(f.p, a)) or ev_obj(f.q, a)
    if name == "Iff":
        return ev_obj(f.p, a) == ev_obj(f.q, a)
    raise ValueError("unexpected node %r" % (f,))


def vars_obj(f, out):
    if isinstance(f, int):
        out.add(abs(f))
        return out
    name = type(f).__name__
    if name in ("And", "Or"):
        for x in f.input_list:
            vars_obj(x, out)
    elif name == "Not":
        vars_obj(f.c, out)
    elif name in ("If", "Iff"):
        vars_obj(f.p, out)
        vars_obj(f.q, out)
    else:
        raise ValueError("unexpected node %r" % (f,))
    return out


def clause_list(result):
    """our own flattening of And([Or([lit..]) | lit ...]); None if the shape is not clausal"""
    if type(result).__name__ != "And":
        return None
    out = []
    for el in result.input_list:
        if isinstance(el, int):
            out.append([el])
        elif type(el).__name__ == "Not" and isinstance(el.c, int):
            out.append([-el.c])
        elif type(el).__name__ == "Or":
            c = []
            for l in el.input_list:
                if isinstance(l, int):
                    c.append(l)
                elif type(l).__name__ == "Not" and isinstance(l.c, int):
                    c.append(-l.c)
                else:
                    return None
            out.append(c)
        else:
            return None
    return out


def stats(j):
    """(connectives, leaves, depth, labels)"""
    labels = set()

    def rec(x, d):
        if isinstance(x, int):
            if x < 0:
                labels.add("neg-literal")
            return 0, 1, d
        op = x[0]
        labels.add("op-" + op)
        kids = x[1] if op in ("and", "or") else x[1:]
        if op in ("and", "or") and len(kids) == 0:
            labels.add("empty-" + op)
        c, l, dm = 1, 0, d
        for k in kids:
            cc, ll, dd = rec(k, d + 1)
            c += cc
            l += ll
            dm = max(dm, dd)
        return c, l, dm
    c, l, d = rec(j, 0)
    if d >= 3:
        labels.add("depth>=3")
    # repeated non-leaf subtree?
    seen = set()

    def rep(x):
        if isinstance(x, int):
            return
        key = runner.canon(x)
        if key in seen:
            labels.add("shared-subformula")
        seen.add(key)
        for k in (x[1] if x[0] in ("and", "or") else x[1:]):
            rep(k)
    rep(j)
    return c, l, d, sorted(labels)


# ------------------------------------------------------------------ the check

def check_case(case):
    from sweetpea._internal import logic
    j, nv = case.get("formula"), case.get("next_variable")
    if not valid_formula(j) or not isinstance(nv, int) or nv < 6:
        return []
    fails = []
    ORIG = [1, 2, 3, 4, 5]
    _, leaves, _, _ = stats(j)
    table = {}
    for bits in itertools.product([False, True], repeat=5):
        a = dict(zip(ORIG, bits))
        table[bits] = ev_json(j, a)

    def fail(conv, kind, msg):
        fails.append(runner.Failure("%s:%s" % (conv, kind), case, msg))

    # ---------------- Tseitin
    try:
        res, nxt = logic.to_cnf_tseitin(build(j), nv)
        ok = True
    except Exception as e:
        fail("tseitin", "exception:" + type(e).__name__, "%s: %s" % (type(e).__name__, e))
        ok = False
    if ok:
        cl = clause_list(res)
        used = vars_obj(res, set())
        fresh = list(range(nv, nxt))
        stray = [v for v in used if v not in ORIG and v not in fresh]
        if nxt < nv:
            fail("tseitin", "next-decreased", "next_variable %d -> %d" % (nv, nxt))
        elif stray:
            fail("tseitin", "stray-variable", "variables %r outside original and reported fresh range [%d,%d)" % (stray, nv, nxt))
        elif cl is None:
            fail("tseitin", "shape", "result is not a conjunction of clauses: %r" % (res,))
        else:
            try:
                lib_cl = logic.cnf_to_json([res])
                if sorted(map(sorted, lib_cl)) != sorted(map(sorted, cl)):
                    fail("tseitin", "cnf_to_json-differs", "cnf_to_json=%r own=%r" % (lib_cl, cl))
            except Exception as e:
                fail("tseitin", "cnf_to_json-exception", "%s: %s" % (type(e).__name__, e))
            solver = satutil.Sat(cl, extra_vars=max([5] + fresh))
            for bits, want in table.items():
                lits = [v if b else -v for v, b in zip(ORIG, bits)]
                n = solver.count_extensions(lits, fresh, cap=2)
                if n != (1 if want else 0):
                    fail("tseitin", "models" if (n > 0) != want else "not-unique",
                         "assignment %r: formula is %s but the clauses have %s extension(s) over the fresh variables"
                         % (bits, want, ">=2" if n >= 2 else str(n)))
                    break
    # ---------------- naive
    if leaves <= 10:
        try:
            res, nxt = logic.to_cnf_naive(build(j), nv)
            ok = True
        except Exception as e:
            fail("naive", "exception:" + type(e).__name__, "%s: %s" % (type(e).__name__, e))
            ok = False
        if ok:
            used = vars_obj(res, set())
            if nxt != nv:
                fail("naive", "next-changed", "next_variable %d -> %d" % (nv, nxt))
            elif not used <= set(ORIG):
                fail("naive", "new-variable", "variables %r introduced" % sorted(used - set(ORIG)))
            else:
                for bits, want in table.items():
                    if ev_obj(res, dict(zip(ORIG, bits))) != want:
                        fail("naive", "models", "assignment %r: formula %s, conversion %s" % (bits, want, not want))
                        break
    # ---------------- switching
    try:
        res, nxt = logic.to_cnf_switching(build(j), nv)
        ok = True
    except Exception as e:
        fail("switching", "exception:" + type(e).__name__, "%s: %s" % (type(e).__name__, e))
        ok = False
    if ok:
        used = vars_obj(res, set())
        fresh = list(range(nv, nxt))
        stray = [v for v in used if v not in ORIG and v not in fresh]
        if nxt < nv:
            fail("switching", "next-decreased", "next_variable %d -> %d" % (nv, nxt))
        elif stray:
            fail("switching", "stray-variable", "variables %r outside original and reported fresh range [%d,%d)" % (stray, nv, nxt))
        elif len(fresh) <= 10:
            for bits, want in table.items():
                a = dict(zip(ORIG, bits))
                got = False
                for fb in itertools.product([False, True], repeat=len(fresh)):
                    a.update(zip(fresh, fb))
                    if ev_obj(res, a):
                        got = True
                        break
                if got != want:
                    fail("switching", "models", "assignment %r: formula %s, exists-fresh of conversion %s" % (bits, want, got))
                    break
    return fails


# ------------------------------------------------------------------ strategy

LITS = st.sampled_from([1, 2, 3, 4, 5, -1, -2, -3, 1, 2, 3])


def formulas(max_leaves):
    def extend(children):
        return st.one_of(
            st.lists(children, min_size=0, max_size=3).map(lambda xs: ["and", xs]),
            st.lists(children, min_size=0, max_size=3).map(lambda xs: ["or", xs]),
            children.map(lambda x: ["not", x]),
            st.tuples(children, children).map(lambda t: ["if", t[0], t[1]]),
            st.tuples(children, children).map(lambda t: ["iff", t[0], t[1]]),
        )
    return st.recursive(LITS, extend, max_leaves=max_leaves)


@st.composite
def cases(draw, max_leaves=12):
    # a pool of subformulas; the final formula combines pool members so that equal subformulas recur
    pool = draw(st.lists(formulas(max_leaves // 2), min_size=1, max_size=3))
    # structurally RELATED variants recur too (same operands in another order or under another connective): this is
    # what distinguishes a sound sub-formula cache from one keyed too coarsely
    for f0 in list(pool):
        if isinstance(f0, list):
            if f0[0] in ("if", "iff"):
                pool.append([f0[0], f0[2], f0[1]])
                pool.append(["iff" if f0[0] == "if" else "if", f0[1], f0[2]])
            elif f0[0] in ("and", "or") and len(f0[1]) >= 2:
                pool.append([f0[0], list(reversed(f0[1]))])
                pool.append(["or" if f0[0] == "and" else "and", list(f0[1])])
            elif f0[0] == "not":
                pool.append(f0[1])
    pick = st.sampled_from(pool)
    top = draw(st.sampled_from(["one", "and", "or", "iff", "if", "not-and", "converse", "converse"]))
    if top == "converse":
        a, b = draw(pick), draw(st.one_of(pick, formulas(3)))
        op = draw(st.sampled_from(["if", "if", "iff"]))
        x, y = [op, a, b], [op, b, a]
        if draw(st.booleans()):
            y = ["not", y]
        f = [draw(st.sampled_from(["and", "or", "iff2"])), [x, y] + draw(st.lists(pick, min_size=0, max_size=1))]
        if f[0] == "iff2":
            f = ["iff", x, y]
    elif top == "one":
        f = draw(formulas(max_leaves))
    elif top in ("and", "or"):
        f = [top, draw(st.lists(st.one_of(pick, formulas(4)), min_size=0, max_size=3))]
    elif top == "not-and":
        f = ["not", ["and", draw(st.lists(pick, min_size=1, max_size=3))]]
    else:
        f = [top, draw(pick), draw(st.one_of(pick, formulas(4)))]
    return {"formula": f, "next_variable": draw(st.sampled_from([6, 9]))}


def _body(acc):
    def body(case):
        c, l, d, labels = stats(case["formula"])
        try:
            with env.time_limit(CASE_LIMIT_S):
                fs = check_case(case)
        except env.CaseTimeout:
            acc.inconclusive += 1
            return
        acc.case(case, c >= 2, labels + (["naive-skipped(>10 leaves)"] if l > 10 else []))
        for f in fs:
            acc.fail(f["bucket"], f["case"], f["message"])
    return body


def _run_hyp(arg):
    seed_value, n, max_leaves = arg
    acc = runner.track(Acc())
    runner.drive(cases(max_leaves), _body(acc), n, seed_value)
    return acc


SEED_CORPUS = [
    {"formula": ["iff", 1, ["and", [2, 3]]], "next_variable": 6},
    {"formula": ["or", [["and", [1, 2]], ["and", [3, 4]]]], "next_variable": 6},
    {"formula": ["if", ["or", [1, -2]], ["not", ["iff", 3, 4]]], "next_variable": 9},
    {"formula": ["and", []], "next_variable": 6},
    {"formula": ["or", [["and", [1, 2]], ["and", [1, 2]], ["not", ["and", [1, 2]]]]], "next_variable": 6},
]


def run(tier, seed):
    n = 400 if tier == "quick" else 6000
    acc = Acc()
    for case in SEED_CORPUS:
        _body(acc)(case)
    acc.merge(runner.run_jobs(_run_hyp, [(runner.shard_seed(seed, i), n, 12 if i % 2 == 0 else 20) for i in range(16)]))
    if tier == "thorough":
        acc.merge(_atheris_campaign(seed))
    return acc


# ------------------------------------------------------------------ coverage-guided tier (atheris + Hypothesis fuzz_one_input)

def _atheris_campaign(seed):
    """Runs tools/fuzz_c11.py in child processes (atheris wants to own the process); merges their JSON reports."""
    import json
    import subprocess
    import tempfile
    acc = Acc()
    script = os.path.join(env.VERIF, "tools", "fuzz_c11.py")
    if not os.path.exists(script):
        acc.label("atheris-unavailable")
        return acc
    procs = []
    outdir = tempfile.mkdtemp(prefix="c11fuzz-", dir=env.scratch_root())
    for i in range(env.NPROC):
        out = os.path.join(outdir, "r%d.json" % i)
        corpus = os.path.join(outdir, "corpus%d" % i)
        os.makedirs(corpus)
        procs.append((out, subprocess.Popen([sys.executable, script, out, str(seed * 100 + i), "20000", corpus,
                                             "seeded" if i % 2 else "empty"],
                                            stdout=subprocess.DEVNULL, stderr=subprocess.DEVNULL, cwd=outdir)))
    for out, p in procs:
        try:
            p.wait(timeout=1500)
        except subprocess.TimeoutExpired:
            p.kill()
        if os.path.exists(out):
            rep = json.load(open(out))
            acc.evaluations += rep["evaluations"]
            acc.nontrivial |= set(rep["nontrivial"])
            acc.classes.update(rep["classes"])
            acc.extra["atheris_executions"] = acc.extra.get("atheris_executions", 0) + rep["evaluations"]
            for f in rep["failures"]:
                acc.fail(f["bucket"], f["case"], f["message"])
        else:
            acc.label("atheris-run-without-report")
    return acc
