"""C04 - RandomGen returns only valid trial sequences.

Oracle: `ref.is_valid` on every sequence synthesize_trials returns with RandomGen (up to 20 per design) and with
IterateGen/UniformGen when they delegate to it.  The reference never enumerates here, so designs may be larger than in C06.
"""
from .. import design as D
from .. import env, lib as L, spec as S, strategies as G
from .c01 import check_all
from .c02 import features_present


def needs_rejection(ctx):
    r = ctx.ref
    spec = ctx.spec
    if any(r.is_complex(d["name"]) for d in spec["derived"] if d["name"] in r.C["design"]):
        return True
    for c in spec["block"].get("constraints", []):
        if c["kind"] not in ("exclude", "min"):
            return True
        if c["kind"] == "exclude" and c["factor"] in r.derived:
            return True         # an excluded derived level outside the crossing is enforced by rejecting candidates
    return False


def judge(ctx):
    spec = ctx.spec
    blk = ctx.block
    ctx.require_unambiguous(allow=("rcc-with-removal", "empty-crossing", "all-levels-excluded"))
    ctx.require_small()
    n_ret = 0
    for g, n in (("RandomGen", ctx.lim("n_random")), ("IterateGen", 3), ("UniformGen", 3)):
        blk2 = ctx.fresh_built().block
        if g != "RandomGen":
            if blk2.complex_factors_or_constraints:
                continue            # they pick a solver: C01's business
            ctx.label(g + ":delegates-to-RandomGen")
        res, _ = ctx.synth(g, n, block=blk2)
        n_ret += len(res)
        if not check_all(ctx, res, g):
            return
    rej = needs_rejection(ctx)
    crossed_within = any(d["name"] in sum(S.block_crossings(spec["block"]), []) and not ctx.ref.is_complex(d["name"]) for d in spec["derived"])
    if rej:
        ctx.label("needs-rejection")
    if crossed_within:
        ctx.label("crossed-within-trial-derived")
    ctx.nontrivial = n_ret >= 1 and (rej or crossed_within or features_present(spec))
    ctx.sample = {"spec": spec, "sequences_judged": n_ret}


CFG = G.cfg(blocks=("cross", "cross", "multi", "repeat", "merge", "nest"))
P = D.DesignProperty(
    "C04", judge,
    rule=("case = generated design spec in the reference domain that RandomGen accepts; up to 20 sequences from RandomGen and 3 each "
          "from IterateGen/UniformGen when they delegate are judged by the reference validity predicate; non-trivial = at least one "
          "sequence judged and the design has a derived factor, a constraint or a weight; distinct = distinct spec JSON"),
    cfg_quick=CFG, n_quick=60, n_thorough=700, case_limit=(12, 90),
    limits={"max_T": {"quick": 9, "thorough": 14}, "n_random": {"quick": 12, "thorough": 20}},
    assumptions=["vp/ref.py implements the documented semantics", "default acceptable error 0 (the class RandomGen, not an instance)"])
P.export(globals())
