"""C01 - formula-based samplers return only valid trial sequences.

Oracle: `ref.is_valid` (vp/ref.py, the documented semantics: trial count, level membership, derived levels equal to what
their window selects, '' where a derived factor does not apply, crossing counts with level weights, every constraint).
It is applied (a) to every sequence returned by synthesize_trials with IterateSATGen, CMSGen, UniGen (forked child) and
IterateGen/UniformGen when the design makes them pick a solver, and (b) to EVERY model of the compiled formula (capped),
decoded the way the samplers decode - i.e. to everything a formula-based sampler could return, not only to what it
happened to pick.  Validity is cheap, so designs far larger than the ones C02 can enumerate are covered.
"""
from .. import design as D
from .. import env, lib as L, strategies as G
from .c02 import features_present


def check_all(ctx, exps, who):
    for e in exps:
        ok, why = ctx.ref.is_valid(D.exp_to_seq(e))
        if not ok:
            ctx.fail("invalid-sequence:" + ("formula-model" if who.startswith("a model") else who.split(":")[0]), "%s returned %r which violates the design: %s" % (who, D.exp_to_seq(e), why))
            return False
    return True


def judge(ctx):
    spec = ctx.spec
    blk = ctx.block
    ctx.require_unambiguous(allow=("rcc-with-removal", "empty-crossing", "all-levels-excluded"))
    ctx.require_small()
    r = ctx.ref
    n_ret = 0
    # (b) all models of the formula
    models, complete = ctx.sat_all(cap=ctx.lim("max_models"))
    ctx.label("models:complete" if complete else "models:capped")
    if not check_all(ctx, models, "a model of build_cnf(block)"):
        return
    n_ret += len(models)
    # (a) what the samplers return
    for g, n in (("IterateSATGen", 4), ("CMSGen", 4), ("IterateGen", 2), ("UniGen", 2), ("UniformGen", 2)):
        blk2 = ctx.fresh_built().block
        if g in ("IterateGen", "UniformGen"):
            if not blk2.complex_factors_or_constraints:
                continue            # they delegate to RandomGen: C04's business
            ctx.label(g + ":solver-path")
        if g in ("UniGen", "UniformGen"):
            if not models or ctx.T_lib > ctx.lim("max_T_unigen"):
                continue
            # pyunigen may terminate the interpreter: forked child

            def call(blk2=blk2, g=g, n=n):
                res, _ = L.synth(blk2, n, g, D.lib_seed(spec), limit=ctx.P.case_limit[ctx.tier])
                return [{str(k): list(v) for k, v in L.visible(e).items()} for e in res]
            status, val = L.in_child(call, ctx.P.case_limit[ctx.tier] + 5)
            ctx.label("%s:%s" % (g, status))
            if status == "ok":
                n_ret += len(val)
                if not check_all(ctx, val, g):
                    return
            continue
        try:
            res, _ = L.synth(blk2, n, g, D.lib_seed(spec))
        except env.CaseTimeout:
            raise
        except Exception:
            ctx.label("lib-exception:" + g)
            continue
        res = [L.visible(e) for e in res]
        n_ret += len(res)
        if not check_all(ctx, res, g):
            return
    ctx.nontrivial = n_ret >= 1 and features_present(spec)
    ctx.sample = {"spec": spec, "sequences_judged": n_ret}


CFG = G.cfg(blocks=("cross", "cross", "multi", "repeat", "merge", "nest"))
P = D.DesignProperty(
    "C01", judge,
    rule=("case = generated design spec in the reference domain; every model of its formula (capped) and every sequence returned by "
          "IterateSATGen, CMSGen, UniGen and solver-backed IterateGen/UniformGen is judged by the reference validity predicate; "
          "non-trivial = at least one sequence judged and a derived factor, constraint or weight is present; distinct = distinct spec JSON"),
    cfg_quick=CFG, n_quick=40, n_thorough=300, case_limit=(15, 120),
    limits={"max_T": {"quick": 9, "thorough": 14}, "max_models": {"quick": 400, "thorough": 4000},
            "max_T_unigen": {"quick": 6, "thorough": 10}},
    assumptions=["vp/ref.py implements the documented semantics (self-test against the maintainers' expected counts)"])
P.export(globals())
