"""C13 - combinatorial unranking functions are bijections with correct counts.

Oracle: brute-force enumeration written here (no code shared with sweetpea).  For each parameter
tuple: images of 0..N-1 are pairwise distinct, each is a legal arrangement, together they are ALL
arrangements, and N equals what the matching counting function reports.  For tuples too large to
enumerate: independent closed-form / DP count, sampled indices must be legal and pairwise distinct.
"""
import itertools
import math
from functools import lru_cache

from hypothesis import strategies as st

from .. import runner
from ..runner import Acc

ID = "C13"
LEVEL = "exploration"
RULE = ("case = (function family, parameter tuple, memo regime); exhaustive sweep of all tuples within the tier's "
        "bound plus Hypothesis-drawn larger tuples; for each, ALL indices 0..N-1 are unranked when N <= 60000 "
        "(otherwise up to 100 Hypothesis-drawn runs of 4 consecutive indices, runs around 2^31/2^32/2^53/2^63/2^64/2^106 and both ends); non-trivial = the arrangement count N >= 2; distinct = distinct "
        "(family, params, memo) tuples")
ASSUMPTIONS = ["brute-force enumerators in vp/props/c13.py are correct (cross-checked against closed-form counts)",
               "indices outside 0..N-1 are outside the property"]
FULL_LIMIT = 60000


def _lib():
    from sweetpea._internal import combinatorics as C
    return C


# ----------------------------------------------------------------- independent enumerators / counts

def all_prefixes(counters, first_n):
    """all distinct length-first_n prefixes of permutations of the multiset with the given multiplicities"""
    out = []
    counters = list(counters)

    def rec(prefix):
        if len(prefix) == first_n:
            out.append(tuple(prefix))
            return
        for i, c in enumerate(counters):
            if c > 0:
                counters[i] -= 1
                prefix.append(i)
                rec(prefix)
                prefix.pop()
                counters[i] += 1
    rec([])
    return out


def count_prefixes(counters, first_n):
    """independent DP: sum over allocations v_i <= c_i with sum first_n of first_n!/prod v_i!"""
    counters = tuple(counters)

    @lru_cache(maxsize=None)
    def ways(i, need):
        # number of sequences of length `need` over symbols i.. with bounded multiplicities, divided later
        if need == 0:
            return 1
        if i >= len(counters):
            return 0
        tot = 0
        for v in range(0, min(counters[i], need) + 1):
            tot += math.comb(need, v) * ways(i + 1, need - v)
        return tot
    return ways(0, first_n)


def legal_prefix(seq, counters, first_n):
    if len(seq) != first_n:
        return False
    used = [0] * len(counters)
    for x in seq:
        if not isinstance(x, int) or not (0 <= x < len(counters)):
            return False
        used[x] += 1
        if used[x] > counters[x]:
            return False
    return True


# ----------------------------------------------------------------- the per-case check

def _result(case, ok, msg):
    if ok:
        return []
    return [runner.Failure("%s:%s" % (case["family"], msg.split(" ")[0]), case, msg)]


def _check_images(case, N_reported, N_true, unrank, legal, universe=None, indices=None):
    """common part: count, legality, injectivity, surjectivity"""
    if N_reported is not None and N_reported != N_true:
        return _result(case, False, "count reported=%r true=%r" % (N_reported, N_true))
    idxs = range(N_true) if indices is None else indices
    seen = {}
    for j in idxs:
        try:
            img = tuple(unrank(j))
        except Exception as e:  # any exception on an in-range index is a failure
            return _result(case, False, "exception index=%d %s: %s" % (j, type(e).__name__, e))
        if not legal(img):
            return _result(case, False, "illegal index=%d image=%r" % (j, img))
        if img in seen:
            return _result(case, False, "duplicate indices %d and %d -> %r" % (seen[img], j, img))
        seen[img] = j
    if indices is None and universe is not None:
        if set(seen) != set(universe):
            missing = sorted(set(universe) - set(seen))[:3]
            return _result(case, False, "missing arrangements %r" % (missing,))
    return []


def check_case(case):
    C = _lib()
    fam = case["family"]
    P = case["params"]
    idx = case.get("indices")  # None => all
    if fam == "extract":
        sizes = list(P["sizes"])
        N = math.prod(sizes)
        uni = list(itertools.product(*[range(s) for s in sizes])) if idx is None else None
        return _check_images(case, None, N, lambda j: C.extract_components(list(sizes), j),
                             lambda im: len(im) == len(sizes) and all(0 <= c < s for c, s in zip(im, sizes)), uni, idx)
    if fam == "comb":
        l, n = P["l"], P["n"]
        N = n ** l
        uni = list(itertools.product(range(n), repeat=l)) if idx is None else None
        return _check_images(case, None, N, lambda j: C.compute_jth_combination(l, n, j),
                             lambda im: len(im) == l and all(isinstance(c, int) and 0 <= c < n for c in im), uni, idx)
    if fam == "comb-wo":
        n, m = P["n"], P["m"]
        N = math.comb(n, m)
        rep = C.n_choose_m(n, m)
        uni = [tuple(c) for c in itertools.combinations(range(n), m)] if idx is None else None
        # the image is a combination: compare as sorted tuples
        return _check_images(case, rep, N,
                             lambda j: tuple(sorted(C.compute_jth_combination_without_replacement(n, m, j))),
                             lambda im: len(im) == m and len(set(im)) == m and all(0 <= c < n for c in im), uni, idx)
    if fam == "perm-prefix":
        n, m = P["n"], P["m"]
        N = math.perm(n, m)
        uni = list(itertools.permutations(range(n), m)) if idx is None else None
        return _check_images(case, None, N, lambda j: C.compute_jth_permutation_prefix(n, m, j),
                             lambda im: len(im) == m and len(set(im)) == m and all(0 <= c < n for c in im), uni, idx)
    if fam == "perm-copies":
        q, m = P["q"], P["m"]
        counters = [m] * q
        N = count_prefixes(counters, q * m)
        rep = C.count_permutations_with_copies(q, m, q * m)
        uni = all_prefixes(counters, q * m) if idx is None else None
        return _check_images(case, rep, N, lambda j: C.construct_permutation_with_copies(j, q, m),
                             lambda im: legal_prefix(im, counters, q * m), uni, idx)
    if fam == "perm-varying":
        counters = list(P["counters"])
        n = sum(counters)
        N = count_prefixes(counters, n)
        rep = C.count_remaining_permutations(list(counters))
        uni = all_prefixes(counters, n) if idx is None else None
        before = list(counters)
        r = _check_images(case, rep, N,
                          lambda j: C.construct_permutation_with_varying_copies(j, len(counters), counters),
                          lambda im: legal_prefix(im, before, n), uni, idx)
        if not r and counters != before:
            return _result(case, False, "mutated caller's counters %r -> %r" % (before, counters))
        return r
    if fam in ("prefix-uniform", "prefix-counters"):
        if fam == "prefix-uniform":
            q, m, first_n = P["q"], P["m"], P["first_n"]
            counters = [m] * q
            arg = m
        else:
            counters = list(P["counters"])
            q, first_n = len(counters), P["first_n"]
            arg = list(counters)
        N = count_prefixes(counters, first_n)
        memo = C.PermutationMemo()
        rep = C.count_prefixes_of_permutations_with_copies(q, arg if not isinstance(arg, list) else list(arg), first_n, memo)
        fails = []
        # the two other counting entry points must agree as well
        if fam == "prefix-uniform":
            alt = C.count_permutations_with_copies(q, m, first_n)
            k_alt = C.k_prefixes_of_permutations_with_copies(q, m, first_n, -1, C.PermutationMemo())
            r_alt = C.recur_count_prefixes_of_permutations_with_copies(q, m, first_n, C.PermutationMemo()) \
                if first_n > 0 else 1
            if not (alt == N and k_alt == N and r_alt == N):
                fails += _result(case, False, "count-entry-points true=%d count_permutations=%r k_prefixes=%r recur=%r"
                                 % (N, alt, k_alt, r_alt))
        else:
            alt = C.count_permutations_with_varying_copies(q, list(counters), first_n)
            if alt != N:
                fails += _result(case, False, "count-entry-points true=%d varying=%r" % (N, alt))
        shared = case.get("memo", "shared") == "shared"
        uni = all_prefixes(counters, first_n) if idx is None else None

        def unrank(j):
            a = arg if not isinstance(arg, list) else list(arg)
            return C.compute_jth_prefix_of_permutations_with_copies(q, a, first_n, j,
                                                                    memo if shared else C.PermutationMemo())
        fails += _check_images(case, rep, N, unrank, lambda im: legal_prefix(im, counters, first_n), uni, idx)
        return fails
    raise ValueError("unknown family %r" % fam)


# ----------------------------------------------------------------- enumeration of the finite sweep

def sweep_cases(tier):
    big = tier == "thorough"
    D = 5 if big else 4
    for d in range(1, 4 if not big else 5):
        for sizes in itertools.product(range(1, D + 1), repeat=d):
            if math.prod(sizes) <= FULL_LIMIT:
                yield {"family": "extract", "params": {"sizes": list(sizes)}}
    for l in range(0, 6 if not big else 7):
        for n in range(1, 5 if not big else 6):
            if n ** l <= FULL_LIMIT:
                yield {"family": "comb", "params": {"l": l, "n": n}}
    for n in range(1, 10 if not big else 14):
        for m in range(0, n + 1):
            yield {"family": "comb-wo", "params": {"n": n, "m": m}}
    for n in range(1, 8 if not big else 9):
        for m in range(0, n + 1):
            if math.perm(n, m) <= FULL_LIMIT:
                yield {"family": "perm-prefix", "params": {"n": n, "m": m}}
    maxtot = 8 if not big else 10
    for q in range(1, 5 if not big else 6):
        for m in range(1, 4 if not big else 5):
            if q * m > maxtot:
                continue
            if count_prefixes([m] * q, q * m) <= FULL_LIMIT:
                yield {"family": "perm-copies", "params": {"q": q, "m": m}}
            for first_n in range(0, q * m + 1):
                if count_prefixes([m] * q, first_n) > FULL_LIMIT:
                    continue
                for memo in ("shared", "fresh"):
                    yield {"family": "prefix-uniform", "params": {"q": q, "m": m, "first_n": first_n}, "memo": memo}
    maxc = 3 if not big else 4
    maxsum = 7 if not big else 9
    for q in range(1, 5 if not big else 6):
        for counters in itertools.product(range(0, maxc + 1), repeat=q):
            s = sum(counters)
            if s == 0 or s > maxsum:
                continue
            if count_prefixes(counters, s) <= FULL_LIMIT:
                yield {"family": "perm-varying", "params": {"counters": list(counters)}}
            for first_n in range(0, s + 1):
                if count_prefixes(counters, first_n) > FULL_LIMIT:
                    continue
                for memo in ("shared", "fresh"):
                    yield {"family": "prefix-counters", "params": {"counters": list(counters), "first_n": first_n},
                           "memo": memo}


def case_count(case):
    fam, P = case["family"], case["params"]
    if fam == "extract":
        return math.prod(P["sizes"])
    if fam == "comb":
        return P["n"] ** P["l"]
    if fam == "comb-wo":
        return math.comb(P["n"], P["m"])
    if fam == "perm-prefix":
        return math.perm(P["n"], P["m"])
    if fam == "perm-copies":
        return count_prefixes([P["m"]] * P["q"], P["q"] * P["m"])
    if fam == "perm-varying":
        return count_prefixes(P["counters"], sum(P["counters"]))
    if fam == "prefix-uniform":
        return count_prefixes([P["m"]] * P["q"], P["first_n"])
    if fam == "prefix-counters":
        return count_prefixes(P["counters"], P["first_n"])
    raise ValueError(fam)


def _run_chunk(cases):
    acc = Acc()
    for case in cases:
        n = case_count(case)
        fails = check_case(case)
        acc.case(case, n >= 2, labels=[case["family"], "memo-" + case.get("memo", "na"),
                                       "sampled-indices" if case.get("indices") is not None else "all-indices"]
                 + (["N>2^53"] if n > 2 ** 53 else []) + (["N>2^64"] if n > 2 ** 64 else []))
        acc.extra["indices_unranked"] = acc.extra.get("indices_unranked", 0) + \
            (n if case.get("indices") is None else len(case["indices"]))
        for f in fails:
            acc.fail(f["bucket"], f["case"], f["message"])
    return acc


# ----------------------------------------------------------------- Hypothesis: larger tuples

@st.composite
def big_case(draw):
    fam = draw(st.sampled_from(["extract", "comb", "comb-wo", "perm-prefix", "perm-copies", "perm-varying",
                                "prefix-uniform", "prefix-counters", "prefix-uniform", "prefix-counters"]))
    if fam == "extract":
        P = {"sizes": draw(st.lists(st.integers(1, 12), min_size=1, max_size=draw(st.sampled_from([7, 7, 40]))))}
    elif fam == "comb":
        # long sequences of an independent factor are ordinary use (MinimumTrials(64) over a 2-level factor)
        P = {"l": draw(st.one_of(st.integers(0, 12), st.integers(13, 90))), "n": draw(st.integers(1, 9))}
    elif fam == "comb-wo":
        n = draw(st.one_of(st.integers(1, 40), st.integers(41, 90)))
        P = {"n": n, "m": draw(st.integers(0, n))}
    elif fam == "perm-prefix":
        n = draw(st.one_of(st.integers(1, 25), st.integers(26, 60)))
        P = {"n": n, "m": draw(st.integers(0, n))}
    elif fam == "perm-copies":
        P = {"q": draw(st.integers(1, 8)), "m": draw(st.integers(1, 6))}
    elif fam == "perm-varying":
        c = draw(st.lists(st.integers(0, 6), min_size=1, max_size=8))
        if sum(c) == 0:
            c[0] = 1
        P = {"counters": c}
    elif fam == "prefix-uniform":
        # includes the first_n >= 100 / q >= 100 dispatch of the counting function
        q = draw(st.one_of(st.integers(1, 10), st.integers(1, 10), st.integers(100, 104)))
        m = draw(st.integers(1, 6 if q < 50 else 2))
        top = q * m
        first_n = draw(st.one_of(st.integers(0, min(top, 14)), st.integers(0, min(top, 14)),
                                 st.integers(min(top, 100), min(top, 104))))
        P = {"q": q, "m": m, "first_n": first_n}
    else:
        c = draw(st.lists(st.integers(0, 6), min_size=1, max_size=9))
        if sum(c) == 0:
            c[-1] = 2
        P = {"counters": c, "first_n": draw(st.integers(0, sum(c)))}
    case = {"family": fam, "params": P}
    if fam.startswith("prefix-"):
        case["memo"] = draw(st.sampled_from(["shared", "fresh"]))
    N = case_count(case)
    if N > FULL_LIMIT:
        k = 40 if N > 10 ** 30 else 100
        # indices come in runs of consecutive values (a map that merges neighbouring indices - lost low-order digits,
        # rounding - is not injective, and independent random indices never collide), around machine-word and
        # float-mantissa boundaries where they exist, and at the two ends
        bases = draw(st.lists(st.integers(0, N - 1), min_size=1, max_size=k, unique=True))
        marks = [b for b in (2 ** 31, 2 ** 32, 2 ** 53, 2 ** 63, 2 ** 64, 2 ** 106, N // 2, N - 3) if 0 <= b < N]
        marks = draw(st.lists(st.sampled_from(marks), max_size=4, unique=True)) if marks else []
        idxs = {0, N - 1}
        for b in list(bases) + list(marks):
            for d in (-1, 0, 1, 2):
                if 0 <= b + d < N:
                    idxs.add(b + d)
        case["indices"] = sorted(idxs)
    return case


def _run_hyp(arg):
    seed_value, n = arg
    acc = runner.track(Acc())

    def body(case):
        sub = _run_chunk([case])
        acc.merge(sub)
    runner.drive(big_case(), body, n, seed_value)
    return acc


def run(tier, seed):
    cases = list(sweep_cases(tier))
    # cost-balanced chunks
    cases.sort(key=case_count, reverse=True)
    nchunks = 64
    chunks = [cases[i::nchunks] for i in range(nchunks)]
    acc = runner.run_jobs(_run_chunk, [c for c in chunks if c])
    acc.extra["sweep_tuples"] = len(cases)
    n_hyp = 150 if tier == "quick" else 1500
    hyp = runner.run_jobs(_run_hyp, [(runner.shard_seed(seed, i), n_hyp) for i in range(16)])
    acc.extra["hypothesis_tuples"] = hyp.evaluations
    acc.merge(hyp)
    acc.extra["exhaustive"] = True
    acc.extra["exhaustive_scope"] = "all parameter tuples of sweep_cases(tier) and all indices of each; Hypothesis tuples beyond"
    return acc
