"""C27 - solver input and output text is faithful.

Part A (formula level): Hypothesis builds clause sets (gaps in numbering, repeated literals, long clauses), a `fresh`
counter, a support size (0..35, crossing the 10-per-line boundary), optionally a cardinality request, solver assignments.
The file written by combine_and_save_cnf is read back with a strict DIMACS parser written from the format description.
Part B (design level, vp/props/c27_blocks.py): the files the samplers actually write for generated blocks, captured at
every IterateSATGen iteration and at the CMSGen / UniGen call.

Oracles: the strict parse; arithmetic on the header; literal equality for parser round-trips; truth tables for the blocking
clause; brute-force projected model sets for the iterate loop.
"""
import itertools
import os
from pathlib import Path

from hypothesis import strategies as st

from .. import dimacs, env, runner, satutil
from ..runner import Acc

ID = "C27"
LEVEL = "exploration"
RULE = ("case = (clause list, fresh counter, support size, optional cardinality request, solver assignment, 1-5 successive "
        "solutions, sampler output lines); every case checks: written DIMACS (header, clause multiset, c ind lines), "
        "parse_cnf_file, the pycryptosat path through a recording stand-in, cryptominisat_solve / build_solution / "
        "sample_uniform output parsing, the pycmsgen / pyunigen wrappers through recording stand-ins, update_file, and (small "
        "formulas) sample_non_uniform's iterate loop and the real CMSGen / UniGen samplers against brute-force projected "
        "models; non-trivial = >=2 clauses and support>=1; distinct = distinct case JSON")
ASSUMPTIONS = ["every trial-sequence (support) variable occurs in some clause, as the Consistency constraints guarantee",
               "cryptominisat_solve may keep the DIMACS terminator 0 at the end of the parsed assignment (all callers slice [:support])",
               "clauses are non-empty (every encoder in the library emits non-empty clauses)",
               "support variables are 1..support as in every caller (save_cnf is only called with support_set_length)"]
CASE_LIMIT_S = 30


def _valid(case):
    try:
        cl = case["clauses"]
        if not cl or any((not c) or any((not isinstance(l, int)) or isinstance(l, bool) or l == 0 for l in c) for c in cl):
            return False
        mv = max(abs(l) for c in cl for l in c)
        if case["fresh"] < mv or case["support"] < 0:
            return False
        present = {abs(l) for c in cl for l in c}
        if any(v not in present for v in range(1, case["support"] + 1)):
            return False   # every trial-sequence variable occurs in the formula (Consistency clauses) in real use
        r = case.get("request")
        if r:
            if r["rel"] not in ("EQ", "LT", "GT") or r["k"] < 0 or not r["vars"] or len(set(r["vars"])) != len(r["vars"]):
                return False
            if any(v < 1 or v > case["fresh"] for v in r["vars"]):
                return False
        if len(case["assignment"]) < max(mv, case["support"], case["fresh"]):
            return False
        for s in case.get("solutions", []):
            if len(s) != case["support"]:
                return False
        return True
    except (KeyError, TypeError, ValueError):
        return False


def _write(case, path):
    from sweetpea._internal.core.cnf import CNF, Var
    from sweetpea._internal.core.generate.utility import (AssertionType, GenerationRequest, combine_and_save_cnf,
                                                          combine_cnf_with_requests)
    reqs = []
    if case.get("request"):
        r = case["request"]
        reqs = [GenerationRequest(AssertionType[r["rel"]], r["k"], [Var(v) for v in r["vars"]])]
    with env.quiet():
        combine_and_save_cnf(Path(path), CNF([list(c) for c in case["clauses"]]), case["fresh"], case["support"], reqs)
        expected = combine_cnf_with_requests(CNF([list(c) for c in case["clauses"]]), case["fresh"], case["support"], reqs)
    return expected.as_list_of_list_of_ints()


class _FakeSolver:
    """stand-in for pycryptosat.Solver: records what it is given and returns a scripted assignment"""
    recorded = None
    scripted = None

    def __init__(self, *a, **k):
        type(self).recorded = []

    def add_clause(self, clause):
        type(self).recorded.append([int(l) for l in clause])

    def solve(self, *a, **k):
        return True, type(self).scripted


class _FakeModule:
    Solver = _FakeSolver


class _FakeSampler:
    """stand-in for pyunigen.Sampler"""
    recorded = None
    sampling_set = None
    samples = None

    def __init__(self, *a, **k):
        type(self).recorded = []
        type(self).sampling_set = None

    def add_clause(self, clause):
        type(self).recorded.append([int(l) for l in clause])

    def sample(self, num=None, sampling_set=None, **k):
        type(self).sampling_set = list(sampling_set) if sampling_set is not None else None
        return 1, 0, [list(s) for s in type(self).samples]


class _FakeSamplerModule:
    Sampler = _FakeSampler


_LAST = {}


def check_case(case):
    _LAST.clear()
    if isinstance(case, dict) and "block" in case:          # a design-level case (vp/props/c27_blocks.py)
        from . import c27_blocks
        return c27_blocks.check_case(case)
    if not _valid(case):
        return []
    fails = []

    def fail(kind, msg):
        fails.append(runner.Failure(kind, case, msg))

    path = os.path.join(os.getcwd(), "c27-%s.cnf" % runner.digest(case))
    try:
        return _check(case, path, fail) or fails
    except Exception as e:
        fail("exception:" + env.exc_bucket(e), "%s: %s" % (type(e).__name__, e))
        return fails
    finally:
        if os.path.exists(path):
            os.unlink(path)


def _check(case, path, fail):
    import importlib
    SNU = importlib.import_module("sweetpea._internal.core.generate.sample_non_uniform")
    SU = importlib.import_module("sweetpea._internal.core.generate.sample_uniform")
    from sweetpea._internal.core.generate.tools import cryptominisat as CMS
    from sweetpea._internal.core.generate.tools import unigen as UG
    from sweetpea._internal.core.cnf import CNF

    support = case["support"]
    expected = _write(case, path)
    if not case.get("request"):
        # without requests the formula IS the input clause list: compare with the input, not with library output
        if dimacs.canon_clauses(expected) != dimacs.canon_clauses(case["clauses"]):
            fail("combine-changes-clauses", "combine_cnf_with_requests without requests altered the clauses")
    text = open(path).read()
    P = dimacs.parse(text)
    # ---- A1 strict format
    if P["errors"]:
        fail("dimacs-format", "; ".join(P["errors"][:3]))
        return
    used = dimacs.max_var(P)
    if P["nvars"] < used:
        fail("header-vars-too-small", "header declares %d variables, formula uses variable %d" % (P["nvars"], used))
    if P["nclauses"] != len(P["clauses"]):
        fail("header-clause-count", "header declares %d clauses, file has %d" % (P["nclauses"], len(P["clauses"])))
    if dimacs.canon_clauses(P["clauses"]) != dimacs.canon_clauses(expected):
        fail("clauses-differ", "clauses in the file differ from the CNF object (%d vs %d)" % (len(P["clauses"]), len(expected)))
    # ---- A2 sampling set
    if any(len(l) > 10 for l in P["ind_lines"]):
        fail("ind-line-too-long", "a c ind line lists more than 10 variables")
    if P["ind"] != list(range(1, support + 1)):
        fail("ind-set-wrong", "sampling set lines list %r, expected 1..%d" % (P["ind"][:12], support))
    # ---- A3 the library's own parser
    with env.quiet():
        cl2, samp2, nv2 = UG.parse_cnf_file(Path(path))
    if [list(c) for c in cl2] != P["clauses"]:
        fail("parse_cnf_file-clauses", "parse_cnf_file returns different clauses than the strict parse")
    if list(samp2) != list(range(1, support + 1)):
        fail("parse_cnf_file-sampling-set", "parse_cnf_file sampling set %r" % (list(samp2)[:12],))
    if nv2 != P["nvars"]:
        fail("parse_cnf_file-header", "parse_cnf_file num_vars %r vs header %r" % (nv2, P["nvars"]))
    # ---- A4 pycryptosat path through a recording stand-in, and solver-output parsing
    nmax = max(used, P["nvars"])
    assign = [bool(b) for b in case["assignment"][:nmax]]
    _FakeSolver.scripted = tuple([None] + assign)
    saved = CMS.pycryptosat if CMS.HAS_PYCRYPTOSAT else None
    CMS.pycryptosat = _FakeModule
    saved_flag = CMS.HAS_PYCRYPTOSAT
    CMS.HAS_PYCRYPTOSAT = True
    try:
        with env.quiet():
            sol = CMS.cryptominisat_solve(Path(path), False)
    finally:
        CMS.pycryptosat = saved
        CMS.HAS_PYCRYPTOSAT = saved_flag
    if dimacs.canon_clauses(_FakeSolver.recorded or []) != dimacs.canon_clauses(P["clauses"]):
        fail("solver-receives-other-clauses", "clauses handed to pycryptosat differ from the file's")
    want = [(i + 1) if b else -(i + 1) for i, b in enumerate(assign)]
    if sol != want and sol != want + [0]:   # the DIMACS terminator may be kept; every caller slices [:support]
        fail("solver-output-parse", "cryptominisat_solve returned %r for solver assignment %r" % (sol, want))
    # ---- A4b the in-process sampler wrappers (pycmsgen / pyunigen) through recording stand-ins: what the stand-in is
    #      given must be the file's clauses and sampling set, the text produced must spell the stand-in's assignment
    known = used                                            # a real solver knows the variables it was given in clauses
    _FakeSolver.scripted = tuple([None] + assign[:known])
    sampling = list(range(1, support + 1)) if support else list(range(1, P["nvars"] + 1))
    if getattr(UG, "HAS_PYCMSGEN", False):
        saved_mod = UG.pycmsgen
        UG.pycmsgen = _FakeModule
        try:
            with env.quiet():
                out = UG.call_cmsgen_python(Path(path), 2)
        finally:
            UG.pycmsgen = saved_mod
        if dimacs.canon_clauses(_FakeSolver.recorded or []) != dimacs.canon_clauses(P["clauses"]):
            fail("cmsgen-wrapper-receives-other-clauses", "clauses handed to pycmsgen differ from the file's")
        _LAST["wrapper:pycmsgen"] = 1
        rows = [l for l in out.splitlines() if l.strip()]
        if len(rows) != 2:
            fail("cmsgen-wrapper-output", "2 samples requested from a satisfiable stand-in, %d lines produced" % len(rows))
        for row in rows:
            got = list(SU.build_solution(row).assignment)
            if [abs(l) for l in got] != sampling:
                fail("cmsgen-wrapper-output", "line %r is not over the sampling set %r" % (row[:60], sampling[:12]))
                break
            wrong = [l for l in got if abs(l) <= known and (l > 0) != assign[abs(l) - 1]]
            if wrong:
                fail("cmsgen-wrapper-output", "solver assignment %r written as %r (literals %r differ)"
                     % ([(i + 1) if b else -(i + 1) for i, b in enumerate(assign[:known])][:12], got[:12], wrong[:4]))
                break
    if getattr(UG, "HAS_PYUNIGEN", False) and case.get("solutions") and support >= 1:
        samples = [[(j + 1) if b else -(j + 1) for j, b in enumerate(s_)] for s_ in case["solutions"][:5]]
        _FakeSampler.samples = samples
        saved_mod = UG.pyunigen
        UG.pyunigen = _FakeSamplerModule
        try:
            with env.quiet():
                out = UG.call_unigen_python(Path(path), len(samples))
        finally:
            UG.pyunigen = saved_mod
        _LAST["wrapper:pyunigen"] = 1
        if out == "":
            if satutil.Sat(P["clauses"]).solve()[0]:
                fail("unigen-wrapper-output", "no output for a satisfiable formula although the sampler returned samples")
        else:
            if dimacs.canon_clauses(_FakeSampler.recorded or []) != dimacs.canon_clauses(P["clauses"]):
                fail("unigen-wrapper-receives-other-clauses", "clauses handed to pyunigen differ from the file's")
            if list(_FakeSampler.sampling_set or []) != sampling:
                fail("unigen-wrapper-sampling-set", "sampling set handed to pyunigen %r, expected 1..%d"
                     % (list(_FakeSampler.sampling_set or [])[:12], support))
            got = [list(SU.build_solution(l).assignment) for l in out.splitlines() if l.strip()]
            if got != samples:
                fail("unigen-wrapper-output", "sampler returned %r, text spells %r" % (samples[:2], got[:2]))
    # ---- A5 build_solution / sample_uniform parsing of sampler output
    lines = []
    sols = []
    for i, s in enumerate(case.get("solutions", [])[:5] or [assign[:max(1, support)]]):
        lits = [(j + 1) if b else -(j + 1) for j, b in enumerate(s)]
        if not lits:
            continue
        style = case.get("styles", [0, 1, 2])[i % 3] if case.get("styles") else i % 3
        freq = 1 + i
        if style == 0:
            line, f = "v " + " ".join(map(str, lits)) + " 0:%d" % freq, freq           # pyunigen path / UniGen binary
        elif style == 1:
            line, f = "v " + " ".join(map(str, lits)) + " 0", 0                         # pycmsgen path
        else:
            line, f = "v" + " ".join(map(str, lits)) + " 0:%d" % freq, freq            # binary output without the blank
        lines.append(line)
        sols.append((lits, f))
        got = SU.build_solution(line)
        if list(got.assignment) != lits or got.frequency != f:
            fail("build_solution", "line %r parsed as %r / %r" % (line[:60], list(got.assignment)[:8], got.frequency))
    if lines:
        out_text = "c some comment\n" + "\n".join(lines) + "\n"
        saved_call = SU.call_unigen
        SU.call_unigen = lambda *a, **k: out_text
        try:
            with env.quiet():
                res = SU.sample_uniform(len(lines), CNF([list(c) for c in case["clauses"]]), case["fresh"], support, [])
        finally:
            SU.call_unigen = saved_call
        if [list(r.assignment) for r in res] != [l for l, _ in sols]:
            fail("sample_uniform-parse", "sample_uniform returned %d solutions that differ from the sampler's %d lines" % (len(res), len(lines)))
    # ---- A6 update_file
    prev = P
    for s in case.get("solutions", [])[:5]:
        solution = [(j + 1) if b else -(j + 1) for j, b in enumerate(s)]
        if not solution:
            break
        SNU.update_file(Path(path), solution)
        Q = dimacs.parse(open(path).read())
        if Q["errors"]:
            fail("update_file-format", "; ".join(Q["errors"][:3]))
            break
        neg = [-l for l in solution]
        if Q["clauses"][:len(prev["clauses"])] != prev["clauses"] or len(Q["clauses"]) != len(prev["clauses"]) + 1:
            fail("update_file-clauses", "old clauses not preserved / not exactly one clause added")
            break
        new = Q["clauses"][-1]
        if Q["nclauses"] != prev["nclauses"] + 1 or Q["nvars"] != prev["nvars"]:
            fail("update_file-header", "header %d %d -> %d %d" % (prev["nvars"], prev["nclauses"], Q["nvars"], Q["nclauses"]))
        if Q["ind_lines"] != prev["ind_lines"]:
            fail("update_file-ind", "sampling-set lines changed")
        # semantic: the new clause is falsified exactly by assignments that equal the solution on the support
        if len(solution) <= 10:
            vs = [abs(l) for l in solution]
            for bits in itertools.product([False, True], repeat=len(vs)):
                a = dict(zip(vs, bits))
                excluded = not satutil.eval_clauses([new], a) if all(abs(l) in a for l in new) else None
                same = all(a[abs(l)] == (l > 0) for l in solution)
                if excluded is None or excluded != same:
                    fail("update_file-blocks-wrong-set", "added clause %r for solution %r" % (new, solution))
                    break
        elif sorted(new) != sorted(neg):
            fail("update_file-blocks-wrong-set", "added clause %r for solution %r" % (new[:8], solution[:8]))
        prev = Q
    # ---- A7 the iterate loop end-to-end against brute force (small formulas only)
    allv = sorted({abs(l) for c in expected for l in c} | set(range(1, support + 1)))
    if case.get("iterate") and len(allv) <= 10 and support >= 1 and max(allv) <= 14 and not fails_header(P, used):
        proj = set()
        for bits in itertools.product([False, True], repeat=len(allv)):
            a = dict(zip(allv, bits))
            if satutil.eval_clauses(expected, a):
                proj.add(tuple(a[v] for v in range(1, support + 1)))
        reqs = []
        if case.get("request"):
            from sweetpea._internal.core.cnf import Var
            from sweetpea._internal.core.generate.utility import AssertionType, GenerationRequest
            r = case["request"]
            reqs = [GenerationRequest(AssertionType[r["rel"]], r["k"], [Var(v) for v in r["vars"]])]
        ask = case["iterate"]
        with env.quiet():
            res = SNU.sample_non_uniform(ask, CNF([list(c) for c in case["clauses"]]), case["fresh"], support, reqs)
        got = [tuple(l > 0 for l in r.assignment) for r in res]
        wellformed = all([abs(l) for l in r.assignment] == list(range(1, support + 1)) for r in res)
        if not wellformed:
            fail("iterate-assignment-shape", "returned assignments are not over variables 1..support")
        elif len(set(got)) != len(got):
            fail("iterate-duplicate", "sample_non_uniform returned the same support assignment twice")
        elif not set(got) <= proj:
            fail("iterate-non-model", "sample_non_uniform returned an assignment that is not a projected model")
        elif len(got) != min(ask, len(proj)):
            fail("iterate-count", "asked %d, %d projected models exist, got %d" % (ask, len(proj), len(got)))
        # ---- A8 the real in-process samplers end-to-end: every returned assignment is a projected model over 1..support
        for name, use_cmsgen in (("CMSGen", True), ("UniGen", False)):
            if not getattr(UG, "HAS_PYCMSGEN" if use_cmsgen else "HAS_PYUNIGEN", False):
                continue
            try:
                with env.quiet():
                    res = SU.sample_uniform(3, CNF([list(c) for c in case["clauses"]]), case["fresh"], support, reqs,
                                            use_docker=False, use_cmsgen=use_cmsgen)
            except UG.UnigenError:
                continue                                   # the external tool's own refusal, not a text fault
            if not proj and res:
                fail("sampler-non-model:" + name, "unsatisfiable formula, %d samples returned" % len(res))
            _LAST["real-sampler:%s:%s" % (name, "samples" if res else "none")] = 1
            for r in res:
                if [abs(l) for l in r.assignment] != list(range(1, support + 1)):
                    fail("sampler-assignment-shape:" + name, "assignment %r is not over 1..%d" % (list(r.assignment)[:12], support))
                    break
                if tuple(l > 0 for l in r.assignment) not in proj:
                    fail("sampler-non-model:" + name, "returned %r which is not a projected model" % (list(r.assignment)[:12],))
                    break


def fails_header(P, used):
    return False


# ------------------------------------------------------------------ strategy

@st.composite
def cases(draw):
    nv = draw(st.integers(1, 14))
    gap = draw(st.sampled_from([0, 0, 1, 3]))
    pool = [v + (gap if v > nv // 2 else 0) for v in range(1, nv + 1)]
    lit = st.builds(lambda v, s: v if s else -v, st.sampled_from(pool), st.booleans())
    clauses = draw(st.lists(st.lists(lit, min_size=1, max_size=draw(st.sampled_from([3, 3, 6, 14]))), min_size=1, max_size=12))
    mv = max(abs(l) for c in clauses for l in c)
    fresh = mv + draw(st.sampled_from([0, 0, 1, 4]))
    support = draw(st.one_of(st.integers(0, min(mv, 12)), st.integers(0, 35)))
    if support > fresh:
        fresh = support
    present = {abs(l) for c in clauses for l in c}
    for v in range(1, support + 1):
        if v not in present:
            # trial-sequence variables always occur in the formula; give the missing ones a clause
            other = draw(st.sampled_from(sorted(present)))
            clauses.append([v, draw(st.sampled_from([other, -other]))])
    case = {"clauses": clauses, "fresh": fresh, "support": support}
    if draw(st.integers(0, 2)) == 0:
        vs = draw(st.lists(st.sampled_from(pool), min_size=1, max_size=min(5, len(pool)), unique=True))
        case["request"] = {"rel": draw(st.sampled_from(["EQ", "LT", "GT"])), "k": draw(st.integers(0, len(vs) + 1)), "vars": vs}
    case["assignment"] = draw(st.lists(st.booleans(), min_size=80, max_size=80))
    if support >= 1:
        case["solutions"] = draw(st.lists(st.lists(st.booleans(), min_size=support, max_size=support), min_size=1, max_size=5))
        case["styles"] = draw(st.lists(st.integers(0, 2), min_size=3, max_size=3))
    if draw(st.booleans()):
        case["iterate"] = draw(st.sampled_from([1, 2, 3, 5, 40, 2000]))
    return case


def _labels(case):
    labs = []
    vs = sorted({abs(l) for c in case["clauses"] for l in c})
    if vs != list(range(1, len(vs) + 1)):
        labs.append("gaps-in-numbering")
    if case["support"] > 10:
        labs.append("support>10")
    if case["support"] == 0:
        labs.append("support=0")
    if len(case.get("solutions", [])) > 1:
        labs.append("multi-update")
    if case.get("request"):
        labs.append("with-request")
    if any(len(set(map(abs, c))) < len(c) for c in case["clauses"]):
        labs.append("repeated-literal")
    if case.get("iterate"):
        labs.append("iterate-loop")
    if case["fresh"] > max(vs):
        labs.append("fresh>maxvar")
    return labs


def _run_hyp(arg):
    seed_value, n = arg
    acc = runner.track(Acc())

    def body(case):
        try:
            with env.time_limit(CASE_LIMIT_S):
                fs = check_case(case)
        except env.CaseTimeout:
            acc.inconclusive += 1
            return
        finally:
            env.clean_cwd_files()
        acc.case(case, len(case["clauses"]) >= 2 and case["support"] >= 1, _labels(case) + sorted(_LAST))
        for f in fs:
            acc.fail(f["bucket"], f["case"], f["message"])
    runner.drive(cases(), body, n, seed_value)
    return acc


def run(tier, seed):
    n = 150 if tier == "quick" else 2500
    acc = runner.run_jobs(_run_hyp, [(runner.shard_seed(seed, i), n) for i in range(16)])
    from . import c27_blocks
    acc.merge(c27_blocks.run(tier, seed))
    return acc
