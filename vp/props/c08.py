"""C08 - synthesis never fails internally on a design the constructors accept.

Generator: D_diff (whatever the block constructors accept), biased to geometric edges by the constraint strategy
(k relative to T, pin indices around +-T, MinimumTrials around multiples of T).  Oracle: for IterateSATGen, RandomGen,
CMSGen and UniGen (the latter in a forked child: the extension may terminate the interpreter),
`synthesize_trials(block, 3, G)` returns a list.  Any exception is bucketed by (type, innermost sweetpea frame); a child
that disappears is the bucket `process-exit`.  Deliberate refusals (UnigenError raised by the sampler wrapper when the
external sampler itself failed) are counted, not judged.
"""
from .. import design as D
from .. import env, lib as L, strategies as G

GENS = ("IterateSATGen", "RandomGen", "CMSGen", "UniGen")

# exception type names that are a documented refusal of an external tool, not an internal error
REFUSALS = {"UnigenError": "external sampler reported failure on the formula (tool error, message names the tool)"}


def judge(ctx):
    spec = ctx.spec
    ctx.block  # Skip if the constructor refuses
    ctx.require_small()
    cons = [c for c in spec["block"].get("constraints", [])]
    ctx.nontrivial = bool(cons or spec["derived"])
    for g in GENS:
        blk = ctx.fresh_built().block
        if g == "UniGen":
            def call(blk=blk, g=g):
                res, _ = L.synth(blk, 2, g, D.lib_seed(spec), limit=ctx.P.case_limit[ctx.tier])
                return len(res) if isinstance(res, list) else "not-a-list:%s" % type(res).__name__
            status, val = L.in_child(call, ctx.P.case_limit[ctx.tier] + 5)
            if status == "timeout":
                ctx.label("UniGen:timeout")
                continue
            if status == "exit":
                ctx.fail("process-exit:UniGen", "the Python process running synthesize_trials(UniGen) ended with status %r" % (val,))
                continue
            if status == "exc":
                tname, bucket, msg = val
                if tname in REFUSALS:
                    ctx.label("refusal:" + tname)
                    continue
                ctx.fail("exception:UniGen:" + bucket, "%s: %s" % (tname, msg))
                continue
            if isinstance(val, str):
                ctx.fail("not-a-list:UniGen", val)
            else:
                ctx.label("UniGen:returned>0" if val else "UniGen:returned0")
            continue
        try:
            res, _ = L.synth(blk, 3, g, D.lib_seed(spec))
        except env.CaseTimeout:
            raise
        except Exception as e:
            if type(e).__name__ in REFUSALS:
                ctx.label("refusal:" + type(e).__name__)
                continue
            ctx.fail("exception:%s:%s" % (g, env.exc_bucket(e)), "%s: %s" % (type(e).__name__, str(e)[:300]))
            continue
        if not isinstance(res, list):
            ctx.fail("not-a-list:" + g, type(res).__name__)
        else:
            ctx.label("%s:returned%s" % (g, ">0" if res else "0"))


CFG = G.cfg(blocks=("cross", "cross", "multi", "repeat", "merge", "nest"))
P = D.DesignProperty(
    "C08", judge,
    rule=("case = generated design spec accepted by the block constructor (constructor rejections are discarded and "
          "counted); each is synthesized with IterateSATGen, RandomGen, CMSGen (3 samples) and UniGen (2 samples, forked "
          "child); non-trivial = the design has at least one constraint or derived factor; distinct = distinct spec JSON"),
    cfg_quick=CFG, n_quick=30, n_thorough=300, case_limit=(10, 90),
    limits={"max_T": {"quick": 8, "thorough": 12}},
    assumptions=["UnigenError from the external sampler wrapper is a documented refusal, everything else is internal",
                 "designs with more trials than the tier bound are discarded as too-large"])
P.export(globals())
