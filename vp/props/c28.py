"""C28 - the OPB text written for the ILP sampler accepts the same assignments as the SAT encoding.

Oracles: (1) differential - for every assignment of the formula's variables, the OPB constraints (own parser and
evaluator) hold iff combine_cnf_with_requests of the same clauses/requests is satisfiable under that assignment;
(2) arithmetic - clauses and each request against their meaning, so a defect shared by both encodings is not masked;
(3) the constraint appended by sample_ilp.update_file excludes exactly the given solution.
"""
import importlib
import itertools
import os
from pathlib import Path

from hypothesis import strategies as st

from .. import env, opb, runner, satutil
from ..runner import Acc

ID = "C28"
LEVEL = "exploration"
RULE = ("case = (clause set over <=8 variables, 0-3 requests EQ/LT/GT with k<=n+2 over variable subsets, 0-3 successive "
        "blocking solutions over a support); ALL assignments of the formula variables are evaluated; non-trivial = at "
        "least one request; distinct = distinct case JSON")
ASSUMPTIONS = ["Gurobi is not needed: the property is about the text handed to it",
               "clauses are non-empty; request variable lists are non-empty and distinct"]
CASE_LIMIT_S = 30


def _valid(case):
    try:
        cl = case["clauses"]
        if any((not c) or any((not isinstance(l, int)) or isinstance(l, bool) or l == 0 or abs(l) > 9 for l in c) for c in cl):
            return False
        for r in case["requests"]:
            if r["rel"] not in ("EQ", "LT", "GT") or r["k"] < 0 or not r["vars"] or len(set(r["vars"])) != len(r["vars"]):
                return False
            if any(v < 1 or v > 9 for v in r["vars"]):
                return False
        vs = {abs(l) for c in cl for l in c} | {v for r in case["requests"] for v in r["vars"]}
        if not vs:
            return False
        if not (1 <= case["support"] <= max(vs)) or any(v not in vs for v in range(1, case["support"] + 1)):
            return False
        for s in case.get("solutions", []):
            if len(s) != case["support"]:
                return False
        return True
    except (KeyError, TypeError, ValueError):
        return False


def _rel(rel, cnt, k):
    return {"EQ": cnt == k, "LT": cnt < k, "GT": cnt > k}[rel]


def check_case(case):
    if not _valid(case):
        return []
    fails = []

    def fail(kind, msg):
        fails.append(runner.Failure(kind, case, msg))
    path = os.path.join(os.getcwd(), "c28-%s.opb" % runner.digest(case))
    try:
        _check(case, path, fail)
    except Exception as e:
        fail("exception:" + env.exc_bucket(e), "%s: %s" % (type(e).__name__, e))
    finally:
        if os.path.exists(path):
            os.unlink(path)
    return fails


def _check(case, path, fail):
    from sweetpea._internal.core.cnf import CNF, Var
    U = importlib.import_module("sweetpea._internal.core.generate.utility")
    ILP = importlib.import_module("sweetpea._internal.core.generate.sample_ilp")
    reqs = [U.GenerationRequest(U.AssertionType[r["rel"]], r["k"], [Var(v) for v in r["vars"]]) for r in case["requests"]]
    clauses = [list(c) for c in case["clauses"]]
    vs = sorted({abs(l) for c in clauses for l in c} | {v for r in case["requests"] for v in r["vars"]})
    cnf = CNF(clauses) if clauses else CNF()
    with env.quiet():
        U.combine_and_save_opb(Path(path), cnf, case["support"], reqs)
        sat_cnf = U.combine_cnf_with_requests(CNF(clauses) if clauses else CNF(), max(vs), case["support"], reqs)
    text = open(path).read()
    cons, errors = opb.parse(text)
    if errors:
        fail("opb-format", "; ".join(errors[:3]))
        return
    if len(cons) != len(clauses) + len(reqs):
        fail("opb-constraint-count", "%d constraints for %d clauses + %d requests" % (len(cons), len(clauses), len(reqs)))
    stray = opb.variables(cons) - set(vs)
    if stray:
        fail("opb-stray-variable", "OPB mentions variables %r that the formula does not use" % sorted(stray))
        return
    solver = satutil.Sat(sat_cnf.as_list_of_list_of_ints(), extra_vars=max(vs))
    for bits in itertools.product([False, True], repeat=len(vs)):
        a = dict(zip(vs, bits))
        meaning = satutil.eval_clauses(clauses, a) and all(_rel(r["rel"], sum(a[v] for v in r["vars"]), r["k"]) for r in case["requests"])
        got_opb = opb.satisfied(cons, a)
        sat, _ = solver.solve([v if b else -v for v, b in a.items()])
        if got_opb != sat:
            # name the culprit: the first request whose own OPB constraint disagrees with its arithmetic meaning
            which = "clauses"
            if len(cons) == len(clauses) + len(reqs):
                for r, con in zip(case["requests"], cons[len(clauses):]):
                    if opb.holds(con, a) != _rel(r["rel"], sum(a[v] for v in r["vars"]), r["k"]):
                        which = r["rel"]
                        break
            fail("opb-vs-sat:" + which,
                 "assignment %r: OPB %s, SAT encoding %s (meaning: %s)" % (a, got_opb, sat, meaning))
            break
        if got_opb != meaning:
            fail("opb-vs-meaning", "assignment %r: OPB %s but clauses/requests mean %s" % (a, got_opb, meaning))
            break
    # blocking constraints
    support = case["support"]
    prev = cons
    for s in case.get("solutions", []):
        solution = [(j + 1) if b else -(j + 1) for j, b in enumerate(s)]
        ILP.update_file(Path(path), solution)
        cons2, errors = opb.parse(open(path).read())
        if errors:
            fail("update-format", "; ".join(errors[:3]))
            break
        if cons2[:len(prev)] != prev or len(cons2) != len(prev) + 1:
            fail("update-changes-old-constraints", "old constraints not preserved or not exactly one added")
            break
        new = cons2[-1]
        sv = list(range(1, support + 1))
        if not set(x for _, x in new[0]) <= set(sv):
            fail("update-blocks-wrong-set", "blocking constraint mentions non-support variables")
            break
        for bits in itertools.product([False, True], repeat=support):
            a = dict(zip(sv, bits))
            same = all(a[abs(l)] == (l > 0) for l in solution)
            if opb.holds(new, a) == same:
                fail("update-blocks-wrong-set", "blocking constraint %r for solution %r: assignment %r is %s"
                     % (new, solution, a, "kept" if same else "excluded"))
                break
        prev = cons2


@st.composite
def cases(draw):
    n = draw(st.integers(1, 8))
    vs = list(range(1, n + 1))
    lit = st.builds(lambda v, s: v if s else -v, st.sampled_from(vs), st.booleans())
    clauses = draw(st.lists(st.lists(lit, min_size=1, max_size=4), min_size=0, max_size=6))
    reqs = []
    for _ in range(draw(st.integers(0, 3))):
        sub = draw(st.lists(st.sampled_from(vs), min_size=1, max_size=n, unique=True))
        m = len(sub)
        k = draw(st.one_of(st.integers(0, m + 2), st.sampled_from([m - 1, m, m + 1])))
        reqs.append({"rel": draw(st.sampled_from(["EQ", "LT", "GT"])), "k": max(0, k), "vars": sub})
    used = {abs(l) for c in clauses for l in c} | {v for r in reqs for v in r["vars"]}
    if not used:
        clauses.append([1])
        used = {1}
    # support = a prefix 1..s of used variables
    s = 0
    while (s + 1) in used:
        s += 1
    if s == 0:
        clauses.append([1, -1])
        s = 1
    support = draw(st.integers(1, s))
    case = {"clauses": clauses, "requests": reqs, "support": support}
    case["solutions"] = draw(st.lists(st.lists(st.booleans(), min_size=support, max_size=support), min_size=0, max_size=3))
    return case


def _labels(case):
    labs = ["requests=%d" % len(case["requests"])]
    for r in case["requests"]:
        m = len(r["vars"])
        labs.append("rel-" + r["rel"])
        labs.append("k>n" if r["k"] > m else ("k=n" if r["k"] == m else ("k=0" if r["k"] == 0 else "0<k<n")))
    if case.get("solutions"):
        labs.append("blocking-updates")
    if not case["clauses"]:
        labs.append("no-clauses")
    return sorted(set(labs))


def _run_hyp(arg):
    seed_value, n = arg
    acc = runner.track(Acc())

    def body(case):
        try:
            with env.time_limit(CASE_LIMIT_S):
                fs = check_case(case)
        except env.CaseTimeout:
            acc.inconclusive += 1
            return
        finally:
            env.clean_cwd_files()
        acc.case(case, len(case["requests"]) >= 1, _labels(case))
        acc.extra["assignments_checked"] = acc.extra.get("assignments_checked", 0) + 2 ** len(
            {abs(l) for c in case["clauses"] for l in c} | {v for r in case["requests"] for v in r["vars"]})
        for f in fs:
            acc.fail(f["bucket"], f["case"], f["message"])
    runner.drive(cases(), body, n, seed_value)
    return acc


def run(tier, seed):
    n = 130 if tier == "quick" else 2000
    return runner.run_jobs(_run_hyp, [(runner.shard_seed(seed, i), n) for i in range(16)])
