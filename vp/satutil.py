"""Small SAT helpers on top of pycryptosat (an independent solver binding, not sweetpea code)."""
import itertools

import pycryptosat


def max_var(clauses):
    m = 0
    for c in clauses:
        for l in c:
            if abs(l) > m:
                m = abs(l)
    return m


def all_vars(clauses):
    s = set()
    for c in clauses:
        for l in c:
            s.add(abs(l))
    return s


def eval_clauses(clauses, assignment):
    """assignment: dict var -> bool (total on the clause variables)."""
    for c in clauses:
        if not any((assignment[abs(l)] if l > 0 else not assignment[abs(l)]) for l in c):
            return False
    return True


class Sat:
    """Incremental solver with selector-guarded blocking clauses."""

    def __init__(self, clauses, extra_vars=0):
        self.s = pycryptosat.Solver()
        self.n = max(max_var(clauses), extra_vars)
        self.has_empty = False
        for c in clauses:
            c = [int(l) for l in c]
            if not c:
                self.has_empty = True
                continue
            self.s.add_clause(c)

    def fresh(self):
        self.n = max(self.n, self.s.nb_vars()) + 1
        return self.n

    def _ensure(self, v):
        if v > self.s.nb_vars():
            self.s.add_clause([v, -v])  # registers every variable up to v
            self.n = max(self.n, v)

    def solve(self, assumptions=()):
        if self.has_empty:
            return False, None
        for a in assumptions:
            self._ensure(abs(int(a)))
        sat, model = self.s.solve([int(a) for a in assumptions])
        return bool(sat), model

    def count_extensions(self, assumptions, aux, cap=2):
        """number (up to cap) of assignments of `aux` consistent with the clauses under the assumptions"""
        aux = [a for a in aux]
        sat, model = self.solve(assumptions)
        if not sat:
            return 0
        if not aux:
            return 1
        sel = self.fresh()
        count = 1
        cur = model
        while count < cap:
            block = [-sel] + [(-a if cur[a] else a) for a in aux]
            self.s.add_clause(block)
            sat, cur = self.solve(list(assumptions) + [sel])
            if not sat:
                break
            count += 1
        self.s.add_clause([-sel])  # retire the selector
        return count


def models(clauses, over, cap=100000, assumptions=()):
    """All assignments of the variables `over` that extend to a model (projected enumeration)."""
    over = list(over)
    s = Sat(clauses, extra_vars=max(over) if over else 0)
    out = []
    if not over:
        sat, _ = s.solve(assumptions)
        return [()] if sat else []
    while len(out) < cap:
        sat, m = s.solve(assumptions)
        if not sat:
            break
        vals = tuple(bool(m[v]) for v in over)
        out.append(vals)
        s.s.add_clause([(-v if b else v) for v, b in zip(over, vals)])
    return out


def count_models_bruteforce(clauses, variables):
    variables = list(variables)
    n = 0
    for bits in itertools.product([False, True], repeat=len(variables)):
        if eval_clauses(clauses, dict(zip(variables, bits))):
            n += 1
    return n
