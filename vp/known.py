"""Known findings (genuine defects recorded rather than repaired).

known_findings.json is committed and never written at run time.  Each *open* entry names a shape
predicate (below) over (case, failure): root-cause level, so that a different violation of the same
property is still reported.  `fixed:` entries suppress nothing.
"""
import json
import os

from . import env

PATH = os.path.join(env.VERIF, "known_findings.json")

PREDICATES = {}


def predicate(name):
    def deco(fn):
        PREDICATES[name] = fn
        return fn
    return deco


def load():
    if not os.path.exists(PATH):
        return []
    data = json.load(open(PATH))
    return data.get("findings", [])


def open_findings(prop):
    return [f for f in load() if f.get("status") == "open" and prop in f.get("properties", [f.get("property")])]


def match(prop, failure):
    """id of the open finding that covers this failure, else None."""
    _ensure_predicates()
    for f in open_findings(prop):
        pred = PREDICATES.get(f.get("predicate"))
        if pred is None:
            continue
        try:
            if pred(failure.get("case"), failure):
                return f["id"]
        except Exception:
            continue
    return None


def avoid_predicates(prop):
    """Shape-only predicates (case -> bool) used by generators to keep searching behind open findings."""
    _ensure_predicates()
    out = []
    for f in open_findings(prop):
        p = PREDICATES.get(f.get("avoid") or "")
        if p is not None:
            out.append((f["id"], p))
    return out


_loaded = False


def _ensure_predicates():
    global _loaded
    if _loaded:
        return
    _loaded = True
    try:
        from . import known_shapes  # noqa: F401  (registers predicates)
    except ImportError:
        pass
