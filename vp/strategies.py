"""Hypothesis strategies that CONSTRUCT design specs (no rejection sampling)."""
import copy

from hypothesis import strategies as st

from . import ref as R
from . import spec as S

FACTOR_NAMES = ["A", "B", "C", "D"]
DERIVED_NAMES = ["X", "Y", "Z", "W"]

ALL_CONSTRAINTS = ("exclude", "pin", "min", "atmost", "atleast", "exactly_row", "exactly_k", "sequential", "latin")

# relative frequency of constraint kinds (Exclude and Pin interact with crossing sizes and derived levels most)
KIND_WEIGHT = {"exclude": 4, "pin": 2, "atmost": 2, "exactly_k": 2}

DEFAULT = {
    "max_factors": 3, "max_levels": 3, "max_weight": 2, "p_weight": 0.2,
    "max_derived": 2, "kinds": ("within", "transition", "window"), "max_width": 3, "max_stride": 3,
    "explicit_start": True, "derived_args_derived": True, "derived_weights": True, "else_level": True,
    "constraints": ALL_CONSTRAINTS, "max_constraints": 3, "factor_shorthand": True,
    "blocks": ("cross",), "max_crossing": 2, "empty_crossing": True, "rcc_false": True,
    "max_T": 8, "aux": False,
}


def cfg(**kw):
    c = dict(DEFAULT)
    c.update(kw)
    return c


@st.composite
def basic_factors(draw, c, min_n=1):
    n = draw(st.integers(min(min_n, c["max_factors"]), c["max_factors"]))
    out = []
    for i in range(n):
        nl = draw(st.sampled_from([1] + [k for k in range(2, c["max_levels"] + 1) for _ in range(3)]))   # single-level factors are rare
        levels = []
        for j in range(nl):
            w = 1
            if c["max_weight"] > 1 and draw(st.floats(0, 1)) < c["p_weight"]:
                w = draw(st.integers(2, c["max_weight"]))
            levels.append(["%s%d" % (FACTOR_NAMES[i].lower(), j), w])
        out.append({"name": FACTOR_NAMES[i], "levels": levels})
    return out


def same_different(d, arg_level_names):
    """Make a two-level Transition / Window(width 2) over one argument the canonical 'repeat' factor: level 0 when the two
    trials agree, level 1 when they differ.  A random table over a crossed argument is unsatisfiable three times out of
    four (some (argument level, derived level) pair has no realising pair of trials); this one never is."""
    if len(d["args"]) != 1 or d.get("width") != 2 or d.get("stride", 1) != 1 or len(d["levels"]) != 2:
        return d
    for p_ in arg_level_names:
        for q_ in arg_level_names:
            d["overrides"][S.key_json([[p_, q_]])] = 0 if p_ == q_ else 1
    return d


@st.composite
def derived_factors(draw, c, factors):
    out = []
    nd = draw(st.integers(0, c["max_derived"]))
    names = [f["name"] for f in factors]
    for i in range(nd):
        kind = draw(st.sampled_from(c["kinds"]))
        pool = list(names)
        if c["derived_args_derived"]:
            pool += [d["name"] for d in out if S.window_of(d)[1] == 1]
        nargs = draw(st.integers(1, min(2, len(pool))))
        args = draw(st.permutations(pool))[:nargs]
        d = {"name": DERIVED_NAMES[i], "args": list(args), "kind": kind, "width": 1, "stride": 1, "start": None}
        if kind == "window":
            d["width"] = draw(st.integers(1, c["max_width"]))
            d["stride"] = draw(st.sampled_from([1, 1] + list(range(2, c["max_stride"] + 1))))
            if c["explicit_start"]:
                d["start"] = draw(st.sampled_from([None, None, 0, 1, 2, 3]))
        elif kind == "transition":
            d["width"] = 2
        nl = draw(st.integers(2, 3))
        levels = []
        for j in range(nl):
            w = 1
            if c["derived_weights"] and c["max_weight"] > 1 and draw(st.floats(0, 1)) < c["p_weight"] / 2:
                w = draw(st.integers(2, c["max_weight"]))
            levels.append(["%s%d" % (DERIVED_NAMES[i].lower(), j), w])
        d["levels"] = levels
        d["else_last"] = bool(c["else_level"] and draw(st.integers(0, 3)) == 0)
        d["salt"] = draw(st.integers(0, 10 ** 6))
        d["overrides"] = {}
        if kind != "within" and len(args) == 1 and args[0] in names and draw(st.integers(0, 2)) == 0:
            same_different(d, [l[0] for f in factors if f["name"] == args[0] for l in f["levels"]])
        out.append(d)
    return out


def crossable(spec_factors, derived):
    names = [f["name"] for f in spec_factors]
    names += [d["name"] for d in derived if S.window_of(d)[1] == 1]
    return names


@st.composite
def constraint(draw, c, spec, T, design, kinds=None):
    kinds = kinds or c["constraints"]
    weighted = [k for k in kinds for _ in range(c.get("kind_weight", KIND_WEIGHT).get(k, 1))]
    kind = draw(st.sampled_from(weighted))
    T = max(1, T or 1)
    if kind == "min":
        return {"kind": "min", "k": draw(st.one_of(st.integers(1, T + 4), st.sampled_from([T, T + 1, 2 * T, 2 * T + 1])))}
    if kind == "latin":
        basics = [f["name"] for f in spec["factors"] if f["name"] in design] or [f["name"] for f in spec["factors"]]
        n = draw(st.integers(1, min(3, len(basics))))
        return {"kind": "latin", "factors": list(draw(st.permutations(basics))[:n])}
    dnames = [d["name"] for d in spec["derived"] if d["name"] in design]
    if dnames and draw(st.booleans()):
        f = draw(st.sampled_from(dnames))                   # derived factors are targets half of the time
    else:
        f = draw(st.sampled_from(list(design)))
    if kind == "sequential":
        return {"kind": "sequential", "factor": f}
    levels = [l[0] for l in S.levels_of(spec, f)]
    lev = draw(st.sampled_from(levels))
    if kind == "exclude":
        return {"kind": "exclude", "factor": f, "level": lev}
    if kind == "pin":
        idx = draw(st.one_of(st.integers(-T - 1, T), st.sampled_from([0, -1, T - 1, T, -T, -T - 1])))
        return {"kind": "pin", "factor": f, "level": lev, "index": idx}
    k = draw(st.one_of(st.integers(1, 3), st.sampled_from([1, 2, max(1, T - 1), T, T + 1])))
    whole = c["factor_shorthand"] and draw(st.integers(0, 3)) == 0
    return {"kind": kind, "factor": f, "level": None if whole else lev, "k": k}


def estimate_T(spec_wo_constraints):
    try:
        r = R.Ref(spec_wo_constraints)
        return r.trial_count()
    except Exception:
        return None


def _decouple(draw, crossing, derived):
    """A crossing that holds a within-trial factor together with one of its own arguments nearly always contains
    impossible combinations (open finding F09a / an unsatisfiable complete crossing) - a legal design, but one that every
    reference-based check has to put aside.  Four times out of five the argument is taken out of the crossing."""
    dm = {d["name"]: d for d in derived}
    out = list(crossing)
    for n in list(out):
        if n in dm and dm[n]["kind"] == "within":
            clash = [a for a in dm[n]["args"] if a in out]
            if clash and draw(st.integers(0, 4)):
                out = [x for x in out if x not in clash]
    return out or list(crossing)


@st.composite
def leaf_block(draw, c, factors, derived, multi=False):
    names = [f["name"] for f in factors] + [d["name"] for d in derived]
    design = list(names)
    # occasionally leave a factor out of the design (only one nobody depends on)
    cand = crossable(factors, derived)
    if multi:
        ncross = draw(st.integers(1, 3))
        crossings = []
        for _ in range(ncross):
            n = draw(st.integers(1, min(c["max_crossing"], len(cand))))
            crossings.append(_decouple(draw, list(draw(st.permutations(cand))[:n]), derived))
        b = {"type": "multi", "design": design, "crossings": crossings, "constraints": [],
             "rcc": not (c["rcc_false"] and draw(st.booleans())),
             "mode": draw(st.sampled_from(["equal", "repeat", "weight", "repeat", "weight"])),
             "alignment": draw(st.sampled_from(["equal preamble", "equal preamble", "post preamble", "parallel start"]))}
    else:
        lo = 0 if c["empty_crossing"] and draw(st.integers(0, 9)) == 0 else 1
        n = draw(st.integers(lo, min(c["max_crossing"], len(cand))))
        crossing = list(draw(st.permutations(cand))[:n])
        dcand = [d["name"] for d in derived if d["name"] in cand]
        if n >= 1 and dcand and not (set(crossing) & set(dcand)) and draw(st.integers(0, 2)) == 0:
            crossing[-1] = draw(st.sampled_from(dcand))     # crossed derived factors are where the samplers differ most
        crossing = _decouple(draw, crossing, derived) if crossing else crossing
        b = {"type": "cross", "design": design, "crossing": crossing, "constraints": [],
             "rcc": not (c["rcc_false"] and draw(st.booleans()))}
    return b


def _leaf_T(spec, leaf):
    return estimate_T(dict(spec, block=leaf))


@st.composite
def _plain_leaf(draw, c, spec, names, cand, exclude_from_crossing=(), rcc=None, avoid_targets=()):
    pool = [n for n in cand if n not in exclude_from_crossing]
    if not pool:
        return None
    k = draw(st.integers(1, min(c["max_crossing"], len(pool))))
    crossing = list(draw(st.permutations(pool))[:k])
    cx = [d["name"] for d in spec["derived"] if d["name"] in pool and d["kind"] != "within"]
    if cx and not (set(crossing) & set(cx)) and draw(st.integers(0, 4)) < 2:
        crossing[-1] = draw(st.sampled_from(cx))      # a crossed Transition/Window gives the block a preamble
    crossing = _decouple(draw, crossing, spec["derived"])
    own = not (c["rcc_false"] and draw(st.booleans()))
    if rcc is not None and draw(st.integers(0, 19)):
        own = rcc                                     # members mostly share the flag (mixed flags are undocumented)
    leaf = {"type": "cross", "design": list(names), "crossing": crossing, "constraints": [], "rcc": own}
    T = _leaf_T(spec, leaf)
    for _ in range(draw(st.integers(c.get("min_leaf_constraints", 0), c.get("max_leaf_constraints", 1)))):
        tn = [n for n in names if n not in avoid_targets] if (avoid_targets and draw(st.integers(0, 6))) else names
        leaf["constraints"].append(draw(constraint(c, dict(spec, block=leaf), T, tn or names, kinds=tuple(k2 for k2 in c["constraints"] if k2 != "min"))))
    return leaf


@st.composite
def combinator_block(draw, c, spec, kind):
    """Repeat / Merge / Nest over plain CrossBlocks (depth 2 for Nest when c['nest_depth'] >= 2)"""
    factors, derived = spec["factors"], spec["derived"]
    names = [f["name"] for f in factors] + [d["name"] for d in derived]
    cand = crossable(factors, derived)
    no_excl = tuple(k for k in c["constraints"] if k not in ("exclude", "min"))
    first = draw(_plain_leaf(c, spec, names, cand))
    T1 = _leaf_T(spec, first) or 2
    if kind == "repeat":
        cs = []
        if draw(st.integers(0, 5)):
            p1 = T1 - 1 if any(d["name"] in first["crossing"] and d["kind"] != "within" for d in derived) else 0
            S1 = max(1, T1 - p1)
            cs.append({"kind": "min", "k": draw(st.sampled_from([T1 + 1, 2 * T1 - 1, 2 * T1, 2 * T1 + 1, 3 * T1, p1 + 3 * S1, p1 + 3 * S1 + 1, p1 + 2 * S1]))})
        tmp = {"type": "repeat", "block": first, "constraints": list(cs)}
        for _ in range(draw(st.integers(0, 1))):
            if no_excl:
                cs.append(draw(constraint(c, dict(spec, block=first), 2 * T1, names, kinds=no_excl)))
        return {"type": "repeat", "block": first, "constraints": cs}
    # in a Nest the factors crossed in the outer block are sustained; what a constraint on them means is undocumented
    sustained = tuple(first["crossing"]) if kind == "nest" else ()
    second = draw(_plain_leaf(c, spec, names, cand, exclude_from_crossing=first["crossing"], rcc=first["rcc"], avoid_targets=sustained))
    if second is None:
        return first
    all_kinds = tuple(k for k in c["constraints"])
    if kind == "merge":
        T2 = _leaf_T(spec, second) or 2
        cs = [draw(constraint(c, dict(spec, block=first), max(T1, T2), names, kinds=all_kinds)) for _ in range(draw(st.integers(0, 1)))]
        return {"type": "merge", "blocks": [first, second], "constraints": cs,
                "mode": draw(st.sampled_from(["repeat", "weight", "repeat", "weight", "equal"])),
                "alignment": draw(st.sampled_from([None, None, "equal preamble", "post preamble", "parallel start"]))}
    T2 = _leaf_T(spec, second) or 2
    inner = second
    # constraints other than Exclude on the OUTER block of a Nest are ambiguous in the documentation (DESIGN.md 4.4)
    first["constraints"] = [x for x in first["constraints"] if x["kind"] == "exclude"]
    if c.get("nest_depth", 1) >= 2 and draw(st.integers(0, 2)) == 0:
        left = draw(st.booleans())
        third = draw(_plain_leaf(c, spec, names, cand, exclude_from_crossing=list(first["crossing"]) + list(second["crossing"]), rcc=first["rcc"],
                                 avoid_targets=sustained + tuple(second["crossing"])))
        if third is not None:
            if not left:
                inner = {"type": "nest", "outer": second, "inner": third, "constraints": [], "alignment": None}
                second["constraints"] = [x for x in second["constraints"] if x["kind"] == "exclude"]   # outer block of the inner Nest
            else:
                second["constraints"] = [x for x in second["constraints"] if x["kind"] == "exclude"]   # part of the outer Nest
                first = {"type": "nest", "outer": first, "inner": second, "constraints": [], "alignment": None}
                inner = third
    if inner is second and draw(st.integers(0, 3)) == 0:
        second["constraints"].append({"kind": "min", "k": 2 * T2})       # an inner block of two passes over its crossing
    tn = [n for n in names if n not in sustained] if draw(st.integers(0, 6)) else names
    cs = [draw(constraint(c, dict(spec, block=second), T1 * T2, tn or names, kinds=all_kinds)) for _ in range(draw(st.integers(0, 1)))]
    return {"type": "nest", "outer": first, "inner": inner, "constraints": cs, "alignment": None}


def _snap_pins(draw, spec, always=False, always_k=False):
    """Pin indices were drawn relative to the trial count WITHOUT the other constraints; MinimumTrials / Repeat move the
    ends.  Half of the pins are re-anchored to the final geometry of the block that carries them: first / last trial of
    its window counted from either end, and one step outside (0, -1, T-1, -T, T, -T-1)."""
    def visit(b):
        pins = [x for x in b.get("constraints", []) if x.get("kind") == "pin"]
        if pins:
            T = estimate_T(dict(spec, block=b))
            if T:
                from .known_shapes import _starts
                start = _starts(spec)[0]
                for x in pins:
                    if always or draw(st.booleans()):
                        s0 = start.get(x["factor"], 0)
                        if 0 < s0 < T:          # the factor's first applicable trial, from either end, and one before it
                            x["index"] = draw(st.sampled_from([s0, -1, T - 1, -(T - s0), -(T - s0), s0 - 1, -T]))
                        else:
                            x["index"] = draw(st.sampled_from([0, -1, T - 1, -T, 0, -1, T - 1, -T, T, -T - 1]))
    def visit_k(b):
        ks = [x for x in b.get("constraints", []) if x.get("kind") in ("atleast", "exactly_row", "exactly_k", "atmost") and "k" in x]
        if ks:
            T = estimate_T(dict(spec, block=b))
            if T:
                for x in ks:
                    if (always_k and draw(st.integers(0, 2))) or draw(st.integers(0, 3)) == 0:
                        # k relative to the FINAL length of the block that carries the constraint: a run exactly as long
                        # as the window, one shorter, one longer
                        x["k"] = max(1, draw(st.sampled_from([T, T, T - 1, T + 1, 1, 2])))
    for b in S.iter_blocks(spec["block"]):
        visit(b)
        visit_k(b)
    return spec


@st.composite
def _design_spec_raw(draw, c=None):
    c = c or DEFAULT
    kind = draw(st.sampled_from(c["blocks"]))
    # Merge / Nest need a crossable factor per member block: construct enough factors instead of discarding the case later
    factors = draw(basic_factors(c, min_n={"merge": 2, "nest": 3 if c.get("nest_depth", 1) >= 2 else 2}.get(kind, 1)))
    derived = draw(derived_factors(c, factors))
    spec = {"factors": factors, "derived": derived}
    if kind in ("repeat", "merge", "nest"):
        spec["block"] = draw(combinator_block(c, spec, kind))
        if c.get("aux"):
            spec["aux"] = draw(st.integers(0, 2 ** 30))
        return _snap_pins(draw, spec)
    b = draw(leaf_block(c, factors, derived, multi=(kind == "multi")))
    spec["block"] = b
    T = estimate_T(spec)
    nc = draw(st.integers(0, c["max_constraints"]))
    for _ in range(nc):
        b["constraints"].append(draw(constraint(c, spec, T, b["design"])))
    if "min" in c["constraints"] and T and not any(x["kind"] == "min" for x in b["constraints"]) and draw(st.integers(0, 3)) == 0:
        b["constraints"].append({"kind": "min", "k": draw(st.sampled_from([T + 1, T + 2, 2 * T - 1, 2 * T, 2 * T + 1]))})
    if c.get("aux"):
        spec["aux"] = draw(st.integers(0, 2 ** 30))
    return _snap_pins(draw, spec)


def strip_overrides(spec):
    s = copy.deepcopy(spec)
    for d in s["derived"]:
        d["overrides"] = {}
    return s


# ------------------------------------------------------------------------------------------------ scenario generator
# Independent random draws almost never build a design in which two or three SPECIFIC features meet (a crossed
# within-trial factor with an uncrossed source AND a leftover round; a preamble AND an Exclude AND near-exhaustive
# requests; ...), and that is exactly where the seeded changes of DESIGN.md 11.7 hid.  The scenario generator draws a
# small set of features first and then CONSTRUCTS a design that has all of them, filling the rest at random.

SCENARIO_FEATURES = (
    "crossed-within-uncrossed-source",   # crossing contains X = WithinTrial(crossed A, uncrossed B)
    "preamble",                          # crossing contains a Transition / Window(width 2) factor
    "min-leftover",                      # MinimumTrials leaving a partial round
    "min-multiple",                      # MinimumTrials = 2 rounds
    "exclude-crossed-basic",             # Exclude on a crossed basic level (require_complete_crossing=False)
    "exclude-uncrossed-basic",           # Exclude on a level of an uncrossed basic factor
    "exclude-uncrossed-derived",         # Exclude on a level of an uncrossed within-trial factor with an uncrossed source
    "weight-crossed", "weight-uncrossed",
    "multi-different-preambles",         # MultiCrossBlock, one crossing with preamble, one without, PARALLEL_START / POST_PREAMBLE
    "run-length", "pin", "exactly-k",
    "repeat-leftover",                   # Repeat(block, [MinimumTrials(non-multiple)])
    "uncrossed-transition",              # an uncrossed Transition factor with a constraint on it
    "strided-window-constrained",        # an uncrossed Window with stride 2-3 that a constraint keeps in the encoding
    "repeat-three",                      # Repeat to three (or three and a bit) repetitions
    "order-constraint-partial",          # LatinSquare / Sequential with a trial count that leaves a partial segment
    "nested-window-crossed",             # crossing contains a Transition / Window over another Transition (start pushed later twice)
    "weight-derived-crossed",            # crossing contains a within-trial factor with a weighted level and an uncrossed source
)


COMPANIONS = {
    "weight-derived-crossed": ("repeat-leftover", "min-leftover", "repeat-leftover"),
    "crossed-within-uncrossed-source": ("min-leftover", "repeat-leftover", "weight-crossed"),
    "weight-crossed": ("min-leftover", "repeat-leftover", "preamble"),
    "weight-uncrossed": ("min-leftover", "repeat-leftover"),
    "preamble": ("repeat-leftover", "repeat-three", "min-leftover"),
    "nested-window-crossed": ("repeat-leftover", "min-leftover"),
    "pin": ("repeat-leftover", "preamble", "repeat-three"),
    "run-length": ("repeat-three", "preamble", "repeat-leftover"),
    "exactly-k": ("repeat-three", "preamble", "repeat-leftover"),
    "exclude-crossed-basic": ("min-leftover", "preamble"),
    "uncrossed-transition": ("repeat-three", "repeat-leftover"),
    "strided-window-constrained": ("min-leftover", "repeat-leftover"),
}


@st.composite
def _scenario_spec_raw(draw, c=None):
    c = c or DEFAULT
    k = draw(st.integers(2, 3))
    feats = set(draw(st.lists(st.sampled_from(SCENARIO_FEATURES), min_size=k, max_size=k, unique=True)))
    # the round geometry (leftover round, several repetitions, preamble) interacts with every other feature: half of the
    # time one of the drawn features brings such a companion along, so that these pairs are not left to chance
    comp = [f for f in sorted(feats) if f in COMPANIONS]
    if comp and draw(st.booleans()):
        feats.add(draw(st.sampled_from(COMPANIONS[draw(st.sampled_from(comp))])))
    nl = lambda: draw(st.sampled_from([2, 2, 3]))                                       # noqa: E731
    def levels(prefix, n, weighted):
        out = []
        for j in range(n):
            w = draw(st.sampled_from([2, 2, 3])) if (weighted and j == draw(st.integers(0, n - 1))) else 1
            out.append(["%s%d" % (prefix, j), w])
        if weighted and all(l[1] == 1 for l in out):
            out[0][1] = 2
        return out
    A = {"name": "A", "levels": levels("a", nl(), "weight-crossed" in feats)}
    nB = 1 if (c.get("small_uncrossed") and "weight-uncrossed" not in feats and draw(st.booleans())) else nl()
    B = {"name": "B", "levels": levels("b", nB, "weight-uncrossed" in feats)}   # one level: keeps exact draw trees (C05) small
    factors = [A, B]
    if draw(st.integers(0, 3)) == 0:
        factors.append({"name": "C", "levels": levels("c", 2, False)})
    derived = []
    crossing = ["A"]
    constraints = []
    rcc = True

    def derived_args(name):
        return next((d["args"] for d in derived if d["name"] == name), [])

    def dfac(name, args, kind, n=2, width=1):
        d = {"name": name, "args": args, "kind": kind, "width": width, "stride": 1, "start": None,
             "levels": [["%s%d" % (name.lower(), j), 1] for j in range(n)], "else_last": draw(st.integers(0, 3)) == 0,
             "salt": draw(st.integers(0, 10 ** 6)), "overrides": {}}
        if kind != "within" and len(args) == 1 and args[0] in ("A", "B") and draw(st.integers(0, 2)):
            same_different(d, [l[0] for l in (A if args[0] == "A" else B)["levels"]])
        derived.append(d)
        return d
    if "crossed-within-uncrossed-source" in feats:
        dfac("X", ["A", "B"], "within")
        crossing = draw(st.sampled_from([["A", "X"], ["X"], ["X", "A"]]))
    if "weight-derived-crossed" in feats and "crossed-within-uncrossed-source" in feats:
        derived[-1]["levels"][draw(st.integers(0, 1))][1] = draw(st.sampled_from([2, 2, 3]))    # the X built just above
    elif "weight-derived-crossed" in feats:
        d = dfac("X", draw(st.sampled_from([["B"], ["A", "B"], ["B", "A"]])), "within", n=draw(st.sampled_from([2, 2, 3])))
        d["levels"][draw(st.integers(0, len(d["levels"]) - 1))][1] = draw(st.sampled_from([2, 2, 3]))
        crossing = draw(st.sampled_from([["X"], ["X"], ["A", "X"]])) if "A" not in d["args"] else ["X"]
        if draw(st.booleans()) and len(B["levels"]) < 4:
            B["levels"] = [["b%d" % j, 1] for j in range(4)]      # several completions per combination
    if "nested-window-crossed" in feats:
        d1 = dfac("P", [draw(st.sampled_from(["A", "B"]))], "transition", width=2)
        k2 = draw(st.sampled_from(["transition", "transition", "within", "window"]))
        d2 = dfac("Q", ["P"], k2, width=1 if k2 == "within" else 2)
        keep = [x for x in crossing if x == "X"] if draw(st.booleans()) else []      # an earlier feature's crossed factor may stay
        crossing = draw(st.sampled_from([["Q"], ["A", "Q"], ["Q", "B"]]))
        crossing = keep + ([x for x in crossing if x not in d1["args"] and x not in keep] or ["Q"])
        if keep:
            crossing = [x for x in crossing if x not in derived_args("X")]
    if "exclude-uncrossed-derived" in feats:
        dfac("W", draw(st.sampled_from([["A", "B"], ["B"], ["B", "A"]])), "within")
        constraints.append({"kind": "exclude", "factor": "W", "level": "w%d" % draw(st.integers(0, 1))})
        rcc = draw(st.booleans())
    if "preamble" in feats or "multi-different-preambles" in feats:
        kind = draw(st.sampled_from(["transition", "transition", "window"]))
        d = dfac("Y", [draw(st.sampled_from(["A", "B"]))], kind, width=2)
        crossing = crossing + ["Y"] if draw(st.booleans()) else ["Y"] + [x for x in crossing if x != "A"][:1]
    if "uncrossed-transition" in feats:
        dfac("Z", [draw(st.sampled_from(["A", "B"]))], "transition", width=2)
        constraints.append({"kind": draw(st.sampled_from(["atmost", "exclude", "exactly_k"])), "factor": "Z",
                            "level": "z%d" % draw(st.integers(0, 1)), "k": draw(st.integers(1, 2))})
    if "strided-window-constrained" in feats:
        d = dfac("V", [draw(st.sampled_from(["A", "B"]))], "window", width=draw(st.integers(1, 2)))
        d["stride"] = draw(st.integers(2, 3))
        d["start"] = draw(st.sampled_from([None, None, 1, 2, 3]))
        if d["start"] is not None and d["start"] < d["width"] - 1:
            d["start"] = None
        constraints.append({"kind": draw(st.sampled_from(["exclude", "exactly_k", "pin"])), "factor": "V",
                            "level": "v%d" % draw(st.integers(0, 1)), "k": draw(st.integers(1, 2)), "index": draw(st.integers(-2, 3))})
        rcc = False if constraints[-1]["kind"] == "exclude" else rcc
    names = [f["name"] for f in factors] + [d["name"] for d in derived]
    spec = {"factors": factors, "derived": derived}
    if "exclude-crossed-basic" in feats:
        f0 = [n for n in crossing if n in ("A", "B")] or ["A"]
        if f0[0] not in crossing:
            crossing = crossing + [f0[0]]
        lv = S.levels_of(spec, f0[0])
        constraints.append({"kind": "exclude", "factor": f0[0], "level": draw(st.sampled_from([l[0] for l in lv]))})
        rcc = False
    if "exclude-uncrossed-basic" in feats:
        unc = [n for n in ("B", "A", "C") if n in names and n not in crossing]
        if unc:
            lv = S.levels_of(spec, unc[0])
            if len(lv) >= 2:
                constraints.append({"kind": "exclude", "factor": unc[0], "level": draw(st.sampled_from([l[0] for l in lv]))})
    leaf = {"type": "cross", "design": names, "crossing": crossing, "constraints": [], "rcc": rcc}
    block = leaf
    if "multi-different-preambles" in feats:
        other = [n for n in ("B", "A", "C") if n in names and n not in crossing][:1] or ["B"]
        block = {"type": "multi", "design": names, "crossings": [crossing, other] if draw(st.booleans()) else [other, crossing],
                 "constraints": [], "rcc": rcc, "mode": draw(st.sampled_from(["weight", "repeat"])),
                 "alignment": draw(st.sampled_from(["parallel start", "parallel start", "post preamble"]))}
    spec["block"] = block
    T = estimate_T(spec) or 3
    Sz = max(1, T - (1 if any(d["name"] in crossing and d["kind"] != "within" for d in derived) else 0))
    if "order-constraint-partial" in feats and not any(l[1] > 1 for f in factors for l in f["levels"]):
        if draw(st.booleans()):
            constraints.append({"kind": "latin", "factors": draw(st.sampled_from([["A", "B"], ["B", "A"]]))})
        else:
            constraints.append({"kind": "sequential", "factor": draw(st.sampled_from(["A", "B"]))})
        if not ({"min-leftover", "min-multiple"} & feats):
            feats.add("min-leftover")
    for feat, kinds in (("run-length", ("atmost", "atleast", "exactly_row")), ("pin", ("pin",)), ("exactly-k", ("exactly_k",))):
        if feat in feats:
            constraints.append(draw(constraint(c, spec, T, names, kinds=kinds)))
    # q = number of combinations of the crossed factors that are decided per trial (basic and within-trial ones); a
    # leftover round of exactly q trials is the boundary at which "every combination once" stops being true when weights
    # or a crossed Transition/Window multiply the round (F37 lived there)
    dmap = {d["name"]: d for d in derived}
    qn = 1
    for n_ in crossing:
        if n_ not in dmap or dmap[n_]["kind"] == "within":
            qn *= len(S.levels_of(spec, n_))
    edge = [qn, qn] if 1 <= qn < Sz else []
    if "min-leftover" in feats:
        constraints.append({"kind": "min", "k": T + draw(st.one_of(st.integers(1, max(1, Sz - 1)), st.sampled_from(edge or [1, max(1, Sz - 1)])))})
    elif "min-multiple" in feats:
        constraints.append({"kind": "min", "k": T + Sz})
    for x in constraints:
        if x["kind"] == "exclude":
            x.pop("k", None), x.pop("index", None)
        elif x["kind"] == "pin":
            x.pop("k", None)
            x.setdefault("index", 0)
        elif x["kind"] in ("exactly_k", "atmost", "atleast", "exactly_row"):
            x.pop("index", None)
    block["constraints"] = constraints
    if ("repeat-leftover" in feats or "repeat-three" in feats) and block["type"] == "cross":
        inner_cons = [x for x in constraints if x["kind"] not in ("min",)]
        block["constraints"] = inner_cons
        ncomb = 1
        for n_ in crossing:
            ncomb *= len(S.levels_of(spec, n_))
        extra = (2 * Sz + draw(st.integers(0, 1))) if "repeat-three" in feats else \
            draw(st.one_of(st.integers(1, max(1, 2 * Sz - 1)), st.sampled_from(edge + [min(ncomb, max(1, Sz - 1)), max(1, Sz - 1), 3])))
        spec["block"] = {"type": "repeat", "block": block, "constraints": [{"kind": "min", "k": T + extra}]}
    if c.get("aux"):
        spec["aux"] = draw(st.integers(0, 2 ** 30))
    # a basic factor that is neither crossed, nor an argument of a derived factor, nor named by a constraint only
    # multiplies the number of sequences (|levels|^T); half of the time it is cut down to one level so that the design
    # stays within reach of the checks that enumerate every sequence
    used = set()
    for b in S.iter_blocks(spec["block"]):
        for cr in S.block_crossings(b):
            used.update(cr)
        for x in b.get("constraints", []):
            used.update([x["factor"]] if x.get("factor") else [])
            used.update(x.get("factors") or [])
    for d in derived:
        used.update(d["args"])
    for f in factors:
        if f["name"] not in used and len(f["levels"]) > 1 and draw(st.booleans()):
            f["levels"] = f["levels"][:1]
    spec["scenario"] = sorted(feats)
    return _snap_pins(draw, spec, always="pin" in feats, always_k="run-length" in feats or "exactly-k" in feats)


GEN_ERRORS = {}


@st.composite
def guarded(draw, strat):
    """A programming error inside a generator (an empty choice list for a rare combination of options) must not turn a
    whole check into a harness error: the example is rejected and counted.  VERIF_STRICT_GEN=1 (set by tools/burnin.sh)
    re-raises, so that such errors are seen and repaired during development."""
    import os
    from hypothesis import reject
    from hypothesis.errors import InvalidArgument
    try:
        return draw(strat)
    except (InvalidArgument, IndexError, KeyError, ValueError, ZeroDivisionError) as e:
        if os.environ.get("VERIF_STRICT_GEN"):
            raise
        GEN_ERRORS[type(e).__name__] = GEN_ERRORS.get(type(e).__name__, 0) + 1
        reject()


def design_spec(c=None):
    return guarded(_design_spec_raw(c))


def scenario_spec(c=None):
    return guarded(_scenario_spec_raw(c))


@st.composite
def _round_skeleton_raw(draw, c=None):
    """Small designs stratified over what RandomGen's enumerator and the Cross encoding branch on: what is crossed
    (basic / within-trial factor with an uncrossed source / a weighted level / a crossed Transition that multiplies the
    round) x the round structure (exact, leftover of 1, of q = number of per-trial combinations, of a round minus one,
    two rounds and a bit) x how the extra trials are requested (MinimumTrials on the block, Repeat around it).  Every cell
    is constructed and stays small enough to be enumerated."""
    c = c or DEFAULT
    nA = draw(st.sampled_from([2, 2, 2, 3]))
    A = {"name": "A", "levels": [["a%d" % i, 1] for i in range(nA)]}
    B = {"name": "B", "levels": [["b%d" % i, 1] for i in range(draw(st.sampled_from([2, 2, 3, 4])))]}
    derived = []
    what = draw(st.sampled_from(["basic", "within", "within", "both"]))
    crossing = ["A"]
    if what != "basic":
        args = ["B"] if what == "both" else draw(st.sampled_from([["B"], ["A", "B"], ["B", "A"]]))
        nX = draw(st.sampled_from([2, 2, 3]))        # three levels: a round of 3 leaves room for a leftover of 2
        derived.append({"name": "X", "args": args, "kind": "within", "width": 1, "stride": 1, "start": None,
                        "levels": [["x%d" % j, 1] for j in range(nX)], "else_last": draw(st.integers(0, 3)) == 0,
                        "salt": draw(st.integers(0, 10 ** 6)), "overrides": {}})
        crossing = ["A", "X"] if what == "both" else ["X"]
    weighted = draw(st.sampled_from(["no", "no", "crossed", "crossed", "uncrossed"]))
    if weighted == "crossed":
        tgt = derived[0]["levels"] if (derived and draw(st.booleans())) else (A["levels"] if "A" in crossing else derived[0]["levels"])
        tgt[draw(st.integers(0, len(tgt) - 1))][1] = draw(st.sampled_from([2, 2, 3]))
    elif weighted == "uncrossed":
        B["levels"][draw(st.integers(0, len(B["levels"]) - 1))][1] = 2
    complex_ = draw(st.integers(0, 2)) == 0
    if complex_:
        derived.append({"name": "Y", "args": [draw(st.sampled_from(["A", "B"]))], "kind": draw(st.sampled_from(["transition", "transition", "window"])),
                        "width": 2, "stride": 1, "start": None, "levels": [["y0", 1], ["y1", 1]], "else_last": draw(st.booleans()),
                        "salt": draw(st.integers(0, 10 ** 6)), "overrides": {}})
        if draw(st.integers(0, 3)):
            same_different(derived[-1], [l[0] for l in (A if derived[-1]["args"][0] == "A" else B)["levels"]])
        crossing = crossing + ["Y"] if draw(st.booleans()) else ["Y"] + crossing
    names = ["A", "B"] + [d["name"] for d in derived]
    spec = {"factors": [A, B], "derived": derived}
    used = set(crossing)
    for d in derived:
        used.update(d["args"])
    for f in (A, B):
        if f["name"] not in used and draw(st.integers(0, 2)):
            f["levels"] = f["levels"][:1]          # an independent factor only multiplies the count
    leaf = {"type": "cross", "design": names, "crossing": crossing, "constraints": [], "rcc": True}
    spec["block"] = leaf
    T = estimate_T(spec) or 2
    p = 1 if complex_ else 0
    Sz = max(1, T - p)
    q = 1
    for n_ in crossing:
        if n_ != "Y":
            q *= len(S.levels_of(spec, n_))
    options = [0, 1, q, Sz - 1, Sz, Sz + 1, Sz + q]
    cap = c.get("max_T", 8)
    extra = draw(st.sampled_from([e for e in options if e >= 0 and T + e <= cap] or [0, 1]))
    if draw(st.integers(0, 3)) == 0:
        leaf["constraints"].append(draw(constraint(c, spec, T, names, kinds=("exclude", "atmost", "pin", "exactly_k"))))
        if leaf["constraints"][-1]["kind"] == "exclude":
            leaf["rcc"] = False
    how = draw(st.sampled_from(["min", "repeat"]))
    if extra:
        if how == "min":
            leaf["constraints"].append({"kind": "min", "k": T + extra})
        else:
            spec["block"] = {"type": "repeat", "block": leaf, "constraints": [{"kind": "min", "k": T + extra}]}
    if c.get("aux"):
        spec["aux"] = draw(st.integers(0, 2 ** 30))
    spec["skeleton"] = {"kind": "round", "crossed": what, "weighted": weighted, "complex": complex_, "how": how if extra else "exact",
                        "extra": "0" if extra == 0 else "1" if extra == 1 else "q" if extra == q else "S-1" if extra == Sz - 1 else
                                 "S" if extra == Sz else "S+1" if extra == Sz + 1 else "S+q"}
    return spec


def round_skeleton(c=None):
    return guarded(_round_skeleton_raw(c))


def mixed_spec(c=None, p_scenario=0.5):
    """generic random designs, constructed feature-interaction scenarios and (one in five) round-structure skeletons"""
    c = c or DEFAULT
    parts = [design_spec(c), design_spec(c), scenario_spec(c), scenario_spec(c)]
    if "repeat" in c["blocks"] or c.get("round_skeleton"):
        parts += [round_skeleton(c) for _ in range(int(c.get("round_share", 1)))]      # checks about RandomGen's enumeration take a larger share
    return st.one_of(*parts)
