#!/bin/bash
# MANIFEST.setup_cmd - offline.  Makes sure the interpreter that runs the checks can import hypothesis
# (and, optionally, jsonschema for evidence validation and atheris for the C11 fuzz tier).
cd "$(dirname "$0")" || exit 2
PY="${VERIF_PYTHON:-/venv/bin/python}"
WH=/opt/veriftools/wheels
export PIP_NO_INDEX=1
mkdir -p .deps
need() { PYTHONPATH="$PWD/.deps" "$PY" -c "import $1" 2>/dev/null; }
need hypothesis || "$PY" -m pip install -q --no-index --find-links "$WH" --target .deps hypothesis || { echo "cannot install hypothesis"; exit 2; }
need jsonschema || "$PY" -m pip install -q --no-index --find-links "$WH" --target .deps jsonschema >/dev/null 2>&1 || echo "note: jsonschema unavailable, evidence validated by built-in rules"
need atheris    || "$PY" -m pip install -q --no-index --find-links "$WH" --target .deps --no-deps atheris >/dev/null 2>&1 || echo "note: atheris unavailable, C11 fuzz tier falls back to Hypothesis only"
PYTHONPATH="${VERIF_REPO:-/repo}:$PWD:$PWD/.deps" "$PY" -c "import hypothesis, sweetpea, vp.cli; print('setup ok: hypothesis', hypothesis.__version__)" 2>/dev/null || { echo "setup failed"; exit 2; }
PYTHONPATH="${VERIF_REPO:-/repo}:$PWD:$PWD/.deps" "$PY" -c "
from vp import fixtures
errs = fixtures.selftest()
print('reference self-test:', 'ok (%d fixtures)' % len(fixtures.fixtures()) if not errs else errs)
raise SystemExit(2 if errs else 0)" || exit 2
