"""Coverage-guided campaign for C11: atheris (libFuzzer) drives the Hypothesis strategy of vp/props/c11.py through
fuzz_one_input, with sweetpea._internal.logic instrumented.  Not run directly: started by `./check C11 --tier thorough`.
argv: <report.json> <seed> <runs> <corpus dir> <empty|seeded>
The oracle (truth tables, unique extension) runs inside the target; failures are recorded, not raised, so the campaign
continues behind the first finding.  The report is rewritten every 500 executions (libFuzzer exits without atexit)."""
import json
import os
import sys

HERE = os.path.dirname(os.path.dirname(os.path.abspath(__file__)))
sys.path[:0] = [os.environ.get("VERIF_REPO", "/repo"), HERE, os.path.join(HERE, ".deps")]
report, seed, runs, corpus, mode = sys.argv[1], int(sys.argv[2]), int(sys.argv[3]), sys.argv[4], sys.argv[5]

import atheris  # noqa: E402

with atheris.instrument_imports(include=["sweetpea._internal.logic"]):
    import sweetpea._internal.logic  # noqa: F401

from hypothesis import HealthCheck, given, settings  # noqa: E402

from vp import runner  # noqa: E402
from vp.props import c11  # noqa: E402

acc = runner.Acc()
body = c11._body(acc)
count = [0]


def dump():
    json.dump({"evaluations": acc.evaluations, "nontrivial": sorted(acc.nontrivial), "classes": dict(acc.classes),
               "failures": acc.failures[:50]}, open(report + ".tmp", "w"))
    os.replace(report + ".tmp", report)


@settings(database=None, deadline=None, suppress_health_check=list(HealthCheck))
@given(c11.cases(16))
def target(case):
    body(case)
    count[0] += 1
    if count[0] % 500 == 0:
        dump()


if mode == "seeded":
    # a few valid byte strings: let Hypothesis generate them once, deterministically
    import random
    rnd = random.Random(seed)
    for i in range(8):
        open(os.path.join(corpus, "seed%d" % i), "wb").write(bytes(rnd.getrandbits(8) for _ in range(64 + 32 * i)))

dump()
atheris.Setup([sys.argv[0], "-runs=%d" % runs, "-seed=%d" % (seed or 1), "-max_len=512", "-verbosity=0", corpus],
              target.hypothesis.fuzz_one_input)
try:
    atheris.Fuzz()
finally:
    dump()
