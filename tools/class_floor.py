#!/venv/bin/python
"""Reads evidence/<Cnn>.json of a QUICK run and reports every class that a check's domain promises but the run never
(or hardly ever) produced.  A check whose interesting class is empty tests nothing about it however many cases it ran
(DESIGN.md 11.4 entry 14: C22's constraint clause was vacuous for exactly this reason).

This is a harness-quality tool, not part of a property's verdict: it is run in the burn-in (tools/burnin.sh) and before
evidence is committed.  Exit 0 = all floors met, 1 = some class under its floor (listed).

usage: tools/class_floor.py [evidence_dir] [Cnn ...]
"""
import json
import os
import sys

# classes every check that uses the mixed design generator (random + scenario designs) must see in a quick run
MIXED = {"block-cross": 50, "block-multi": 10, "block-repeat": 10, "c-exclude": 20, "c-min": 20, "c-pin": 10,
         "c-exactly_k": 10, "c-atmost": 5, "crossed-derived": 20, "has-transition": 20, "has-within": 20,
         "has-window": 10, "weights-crossed": 20, "weights-uncrossed": 20, "rcc-false": 20, "else-level": 10,
         "window-stride>1": 5, "scenario:min-leftover": 1, "scenario:preamble": 1, "round-skeleton": 10,
         "scenario:multi-different-preambles": 1, "scenario:repeat-leftover": 1, "scenario:exclude-uncrossed-derived": 1,
         "scenario:crossed-within-uncrossed-source": 1, "scenario:weight-uncrossed": 1, "scenario:pin": 1,
         "scenario:run-length": 1, "scenario:uncrossed-transition": 1}

# checks that give the round-structure skeleton a triple share see fewer scenario designs: the skeleton classes are floored instead
MIXED_ROUND = dict({k: v for k, v in MIXED.items() if not k.startswith("scenario:")},
                   **{"round-skeleton": 50, "round:extra=q": 3, "round:extra=1": 3, "round:how=repeat": 10, "round:how=min": 10,
                      "round:weighted=crossed": 5})

FLOORS = {
    "C01": dict(MIXED, **{"UniGen:ok": 50, "UniformGen:ok": 50, "models:complete": 50, "models:capped": 10}),
    "C02": dict(MIXED, **{"real-loop": 50, "unsat": 10}),
    "C03": dict(MIXED, **{"aux=51-500": 50, "unsat": 10}),
    "C04": dict(MIXED, **{"needs-rejection": 50}),
    "C05": {"rejection": 100, "no-rejection": 100, "c-pin": 20, "c-atmost": 20, "weights-uncrossed": 50,
            "has-transition": 50, "scenario:repeat-leftover": 1, "block-multi": 20},
    "C06": dict(MIXED_ROUND, **{"count-checked": 10, "count-not-checked:rejections": 10, "unsat": 10}),
    "C07": dict(MIXED, **{"membership-mode": 20, "c-atleast": 2}),
    "C08": dict(MIXED, **{"RandomGen:returned>0": 50, "UniGen:returned>0": 50, "CMSGen:returned>0": 50,
                          "IterateSATGen:returned>0": 50, "scenario:order-constraint-partial": 1, "c-latin": 2,
                          "c-sequential": 2}),
    "C09": dict(MIXED_ROUND, **{"requested-more": 100, "requested-fewer": 50, "requested-all": 20, "has-copies": 10}),
    "C10": {"rel-EQ": 100, "rel-GT": 100, "rel-LT": 100, "k>n": 50, "k=0": 50, "k=n": 50, "0<k<n": 100, "requests=2": 50,
            "requests=3": 50, "n>12": 50},
    "C11": {"op-not": 500, "op-and": 500, "op-or": 500, "op-if": 500, "op-iff": 500, "shared-subformula": 200,
            "empty-and": 50, "empty-or": 50, "depth>=3": 500},
    "C12": {"pop_count": 100, "ripple_carry": 50, "ripple_saturate": 50, "inputs>14": 50},
    "C13": {"perm-varying": 50, "perm-prefix": 50, "perm-copies": 50, "comb": 50, "comb-wo": 50, "extract": 50,
            "memo-shared": 200, "prefix-counters": 200, "N>2^53": 100, "N>2^64": 100, "sampled-indices": 300},
    "C14": dict(MIXED, **{"has-complex-window-factor": 100, "block-merge": 5, "block-nest": 3}),
    "C15": {"plant:gap": 20, "plant:overlap": 20, "plant:none": 100, "has-window": 20, "has-transition": 20,
            "weights-derived": 20},
    "C16": dict(MIXED, **{"RandomGen:sampled": 50, "UniGen:sampled": 50, "IterateSATGen:sampled": 50}),
    "C17": dict(MIXED, **{"candidate:valid": 200, "candidate:swap": 100, "candidate:cell": 100, "candidate:derived": 100,
                          "candidate:rotate": 100, "candidate:random": 200}),
    "C18": {"last=cross": 100, "last=repeat": 50, "last=merge": 20, "last=nest": 10, "blocks=3": 50, "blocks=4": 20,
            "weights-uncrossed": 50, "has-transition": 50},
    "C19": {"has-continuous": 20, "weights-uncrossed": 20, "c-exclude": 10, "c-pin": 5, "has-transition": 5},
    "C20": {"has-hidden-factor": 50, "names-need-csv-quoting": 50, "int-level-names": 50, "has-constraint": 50,
            "source=RandomGen": 50, "source=IterateSATGen": 50, "source=arbitrary": 50, "crossings=2": 50, "has-derived": 50},
    "C21": {"has-empty-cells": 200, "via-block": 100, "via-factors": 100, "trials=subset": 50, "selected=2": 100,
            "selected=3": 50, "experiments=3": 100},
    "C22": {"has-continuous-constraint": 100, "has-cumulative": 30, "has-window": 50, "strategy:RandomGen": 50,
            "strategy:IterateSATGen": 50, "strategy:CMSGen": 50, "strategy:IterateGen": 50},
    "C23": {"reference-compared": 30, "weighted:uncrossed": 20, "weighted:crossed": 20, "weighted:both": 5,
            "weighted-level-referenced": 20, "weighted-derived-level:reference-only": 10},
    "C24": {"law:multi=merge": 50, "law:repeat=merge": 30, "law:cross=multi1": 20, "law:repeat-empty": 10,
            "law:merge-single": 10, "c-exclude": 20, "has-window": 20},
    "C25": {"exhausted": 100, "depth=2": 10, "associativity-compared": 10, "c-pin": 10, "c-atmost": 5, "has-within": 30},
    "C26": {"skeleton": 100, "scope-metamorphic": 20, "placement-distinguishes": 10, "sk-member-pin": 20,
            "sk-combinator-pin": 10, "sk-member-atmost": 10, "sk-combinator-atmost": 10, "sk-both-atmost": 10, "sk-both-pin": 10, "sk-preamble=True": 30,
            "repetitions=3": 30, "exhausted": 100},
    "C27": {"iterate-loop": 200, "multi-update": 200, "with-request": 200, "gaps-in-numbering": 100, "fresh>maxvar": 100,
            "repeated-literal": 200, "support=0": 100, "wrapper:pycmsgen": 500, "wrapper:pyunigen": 500,
            "real-sampler:CMSGen:samples": 50, "real-sampler:UniGen:samples": 50, "block:iterate-files=3": 50,
            "block:CMSGen-files=1": 50, "block:UniGen-files=1": 50, "block:support>10": 50},
    "C28": {"blocking-updates": 200, "rel-EQ": 100, "rel-GT": 100, "rel-LT": 100, "k>n": 100, "k=n": 100, "k=0": 100,
            "requests=3": 100, "no-clauses": 50},
    "C29": {"smgen:ok": 50, "smgen:refused": 20, "history-length=2": 20, "history-length=3": 10, "has-transition": 30,
            "weights-uncrossed": 30, "exec_th=0.001": 20},
}


def main(argv):
    evdir = argv[1] if len(argv) > 1 and not argv[1].startswith("C") else os.path.join(os.path.dirname(__file__), "..", "evidence")
    ids = [a for a in argv[1:] if a.startswith("C")] or sorted(FLOORS)
    bad = 0
    for pid in ids:
        path = os.path.join(evdir, pid + ".json")
        try:
            ev = json.load(open(path))
        except OSError:
            print("%s: no evidence file" % pid)
            bad += 1
            continue
        if ev.get("tier") != "quick":
            print("%s: evidence is from tier %s, floors are stated for quick - skipped" % (pid, ev.get("tier")))
            continue
        classes = ev["coverage"].get("classes", {})
        low = ["%s=%d<%d" % (k, classes.get(k, 0), v) for k, v in sorted(FLOORS[pid].items()) if classes.get(k, 0) < v]
        if low:
            bad += 1
            print("%s: UNDER FLOOR %s" % (pid, " ".join(low)))
        else:
            print("%s: ok (%d classes checked, %d evaluations)" % (pid, len(FLOORS[pid]), ev["coverage"]["evaluations"]))
    return 1 if bad else 0


if __name__ == "__main__":
    sys.exit(main(sys.argv))
