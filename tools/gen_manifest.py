#!/venv/bin/python
"""Regenerates /verif/MANIFEST.json from the table below and validates it against the schema.
Development tool; MANIFEST.json itself is committed."""
import json
import os
import sys

HERE = os.path.dirname(os.path.dirname(os.path.abspath(__file__)))
sys.path.insert(0, HERE)
sys.path.insert(0, os.path.join(HERE, ".deps"))

from tools.manifest_data import CHECKS, NOT_APPLICABLE, NOTES  # noqa: E402

props = [json.loads(l) for l in open(os.path.join(HERE, "properties.jsonl"))]
ids = [p["id"] for p in props]

checks = []
for pid in ids:
    if pid not in CHECKS:
        continue
    c = CHECKS[pid]
    checks.append({
        "property_id": pid,
        "quick_cmd": "./check %s --tier quick" % pid,
        "thorough_cmd": "./check %s --tier thorough" % pid,
        "evidence_file": "/verif/evidence/%s.json" % pid,
        "replay_cmd_template": "./check %s --replay {path}" % pid,
        "engine": "vp",
        "level_claimed": {"category": c.get("category", "exploration"), "text": c["text"], "design_ref": c.get("design_ref", "DESIGN.md section 6, " + pid)},
        "level_note": c["note"],
        "technique": c["technique"],
    })

na = [{"property_id": pid, "reason": NOT_APPLICABLE.get(pid, "check not built yet in this revision of /verif; see DESIGN.md section 10 (build order)")}
      for pid in ids if pid not in CHECKS]

manifest = {
    "version": 1,
    "setup_cmd": "./setup.sh",
    "hooks": {
        "guard": "SWEETPEA_VERIF",
        "enable": "no source hooks are needed: checks put /repo's working tree first on PYTHONPATH and observe the package from outside (module-attribute substitution, private working directories); SWEETPEA_VERIF is reserved and unused",
        "baseline_off_cmd": "cd /repo && /venv/bin/python -m pytest -ra -q -p no:cacheprovider --timeout=900 --continue-on-collection-errors",
        "source_commits": [],
        "add_only": True,
    },
    "engines": [{
        "name": "vp",
        "path": "/verif/vp",
        "serves_properties": [c["property_id"] for c in checks],
        "kind_free_text": "property-based testing: Hypothesis strategies (and exhaustive itertools sweeps for finite spaces) over design specs, formulas, parameter tuples and call histories, judged by independent oracles (reference model, SAT truth tables, strict format parsers, differential and metamorphic relations); 16-way sharded; failures bucketed by root cause and delta-debugged into JSON replay files",
    }],
    "checks": checks,
    "notes": NOTES,
    "not_applicable": na,
}

out = os.path.join(HERE, "MANIFEST.json")
with open(out, "w") as f:
    json.dump(manifest, f, indent=1)
    f.write("\n")

try:
    import jsonschema
    schema = json.load(open("/root/.vp/MANIFEST.schema.json"))
    errs = [e.message for e in jsonschema.Draft202012Validator(schema).iter_errors(manifest)]
    print("manifest:", len(checks), "checks,", len(na), "not_applicable;", "schema errors:", errs)
    sys.exit(1 if errs else 0)
except ImportError:
    print("manifest written (jsonschema not importable, not validated)")
