#!/venv/bin/python
"""How often does a design-level check actually EVALUATE a given shape?  (development tool)

Every miss of a seeded change so far was a generator-yield problem, not an oracle problem (DESIGN.md 11.7); this tool
answers the question that decides such a case: of the cases one quick run of check Cnn generates, how many satisfy a
predicate, and what happens to them (evaluated / discarded with which reason / failed)?

usage:  tools/shape_yield.py Cnn '<python expression over spec, S (vp.spec), G (vp.strategies), T(block)>' [tier] [seed]
example: tools/shape_yield.py C02 'any(c.get("kind")=="pin" and c.get("index")==-T(b) for b in S.iter_blocks(spec["block"]) for c in b.get("constraints",[]))'
Set VERIF_REPO to a patched worktree to see whether the matching cases fail there.
"""
import importlib
import json
import os
import sys
from collections import Counter

HERE = os.path.dirname(os.path.abspath(__file__))
sys.path.insert(0, os.path.join(HERE, ".."))
sys.path.insert(0, os.environ.get("VERIF_REPO", "/repo"))
sys.path.insert(0, os.path.join(HERE, "..", ".deps"))
os.environ.setdefault("UNIGEN_DOWNLOAD_IF_MISSING", "False")


def main(argv):
    pid, expr = argv[1], argv[2]
    tier = argv[3] if len(argv) > 3 else "quick"
    seed = int(argv[4]) if len(argv) > 4 else 1
    from vp import runner, spec as S, strategies as G
    mod = importlib.import_module("vp.props.%s" % pid.lower())
    P = mod.P

    def T(block, spec_holder={}):
        return G.estimate_T(dict(spec_holder["spec"], block=block))
    orig = P.run_case
    cnt = Counter()
    shown = []

    def rc(spec, tier_, acc=None):
        T.__defaults__[0]["spec"] = spec
        try:
            hit = bool(eval(expr, {"spec": spec, "S": S, "G": G, "T": T, "json": json}))
        except Exception as e:
            hit = False
            cnt["predicate-error:" + type(e).__name__] += 1
        st, ctx = orig(spec, tier_)
        if hit:
            cnt[(st[:60], "FAILS" if ctx.fails else "")] += 1
            if st == "ok" and len(shown) < 3:
                shown.append(json.dumps(spec["block"])[:300])
        cnt["(all cases)"] += 1
        return st, ctx
    P.run_case = rc
    for i in range(16):
        P._shard((tier, runner.shard_seed(seed, i), P.n[tier]))
    for k, v in sorted(cnt.items(), key=lambda kv: -kv[1]):
        print(v, k)
    for s_ in shown:
        print("e.g.", s_)


if __name__ == "__main__":
    main(sys.argv)
