#!/bin/bash
# usage: tools/burnin.sh "<seeds>" <tier> Cnn [Cnn ...]    (development tool: runs checks at several seeds, prints summaries)
SEEDS="$1"; TIER="$2"; shift 2
cd "$(dirname "$0")/.."
for C in "$@"; do for S in $SEEDS; do
  OUT="$(VERIF_SEED=$S ./check "$C" --tier "$TIER" 2>&1)"; RC=$?
  echo "== $C seed=$S exit=$RC $(echo "$OUT" | grep '^property=' | tail -1)"
  echo "$OUT" | grep -E '^(VIOLATION|  bucket=|HARNESS|NOTE)' | cut -c1-400 | head -12
done; done
