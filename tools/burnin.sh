#!/bin/bash
# usage: tools/burnin.sh "<seeds>" <tier> Cnn [Cnn ...]    (development tool: runs checks at several seeds, prints summaries
# and, for the quick tier, the classes that stayed under their floor - tools/class_floor.py)
SEEDS="$1"; TIER="$2"; shift 2
cd "$(dirname "$0")/.."
export VERIF_EVIDENCE_DIR="${VERIF_EVIDENCE_DIR:-/tmp/dev/ev_burn}"
mkdir -p "$VERIF_EVIDENCE_DIR"
export VERIF_STRICT_GEN=1   # generator programming errors are harness errors during development
for C in "$@"; do for S in $SEEDS; do
  OUT="$(VERIF_SEED=$S ./check "$C" --tier "$TIER" 2>&1)"; RC=$?
  echo "== $C seed=$S exit=$RC $(echo "$OUT" | grep '^property=' | tail -1)"
  echo "$OUT" | grep -E '^(VIOLATION|  bucket=|HARNESS|NOTE)' | cut -c1-400 | head -12
  [ "$TIER" = quick ] && tools/class_floor.py "$VERIF_EVIDENCE_DIR" "$C" | grep -v ': ok'
done; done
