#!/venv/bin/python
"""usage: mkmutant.py <name> <file relative to /repo> <<< 'OLD\n=====\nNEW'   -> mutants/<name>.diff (unified, -p1)"""
import difflib, sys, os
name, rel = sys.argv[1], sys.argv[2]
old, new = sys.stdin.read().split("\n=====\n")
new = new.rstrip("\n")
src = open(os.path.join("/repo", rel)).read()
assert src.count(old) == 1, "pattern occurs %d times" % src.count(old)
dst = src.replace(old, new)
diff = "".join(difflib.unified_diff(src.splitlines(True), dst.splitlines(True), "a/" + rel, "b/" + rel))
out = os.path.join(os.path.dirname(os.path.dirname(os.path.abspath(__file__))), "mutants", name + ".diff")
open(out, "w").write(diff)
print(out, len(diff.splitlines()), "lines")
