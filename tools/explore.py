"""dev probe: ref vs library on generated specs.  usage: explore.py <seed> <n> [blocks]"""
import sys, os, json, traceback, tempfile
from collections import Counter
sys.path[:0] = [os.environ.get("VERIF_REPO", "/repo"), "/verif", "/verif/.deps"]
os.environ["UNIGEN_DOWNLOAD_IF_MISSING"] = "False"
from vp import env, runner, strategies as G, build as B, ref as R, lib as L, spec as S
os.chdir(tempfile.mkdtemp())
seed, n = int(sys.argv[1]), int(sys.argv[2])
blocks = tuple(sys.argv[3].split(",")) if len(sys.argv) > 3 else ("cross",)
stats = Counter(); examples = {}
def note(k, spec, msg=""):
    stats[k] += 1
    if k not in examples or len(json.dumps(spec)) < len(json.dumps(examples[k][0])):
        examples[k] = (spec, msg)
def body(spec):
    try:
        built = B.build(spec)
    except B.BuildRejected as e:
        note("reject:%s:%s" % (e.stage, type(e.exc).__name__), spec, str(e)[:200]); return
    blk = built.block
    try:
        ref = R.Ref(spec)
    except R.Unsupported as e:
        note("ref-unsupported:" + str(e)[:40], spec); return
    except Exception as e:
        note("REF-CRASH:" + type(e).__name__, spec, traceback.format_exc()[-300:]); return
    amb = ",".join(sorted(ref.ambiguous))
    T = blk.trials_per_sample()
    if ref.trial_count() is not None and T != ref.trial_count():
        note("T-DIFF[%s]" % amb, spec, "lib %s ref %s" % (T, ref.trial_count())); return
    if ref.trial_count() is None: note("unspecified-T", spec)
    if (ref.trial_count() or T) > 7: stats["big-T"] += 1; return
    if ref.trial_count() is None:
        want = Counter()
    else:
        want = ref.enumerate(cap=600, node_cap=300000)
        if want is None: stats["too-many"] += 1; return
    want_set = Counter({tuple((k, v) for k, v in c): m for c, m in want.items()})
    for g in ("sat", "random"):
        try:
            with env.time_limit(30):
                if g == "sat":
                    got, complete = L.exhaust_sat_inprocess(blk, 1500)
                else:
                    got, _ = L.synth(blk, 1500, "RandomGen")
        except env.CaseTimeout:
            stats[g + ":timeout"] += 1; continue
        except Exception as e:
            note("%s:EXC:%s[%s]" % (g, env.exc_bucket(e), ""), spec, str(e)[:200]); continue
        gotc = Counter(L.canon(e) for e in got)
        wantc = Counter({tuple(sorted((k, tuple(v)) for k, v in c)): m for c, m in want.items()})
        if g == "sat":
            gotc = Counter({k: 1 for k in gotc})  # projected models are distinct by construction; compare sets + mult separately
            wantc_cmp = Counter({k: 1 for k in wantc})
        else:
            wantc_cmp = wantc
        if gotc == wantc_cmp:
            stats[g + ":ok" + ("-empty" if not wantc else "")] += 1
        else:
            kind = "missing" if set(wantc) - set(gotc) else ("extra" if set(gotc) - set(wantc) else "mult")
            note("%s:MISMATCH-%s[%s]" % (g, kind, amb), spec, "lib %d ref %d errors=%s" % (sum(gotc.values()), sum(wantc_cmp.values()), list(blk.errors)[:2]))
c = G.cfg(blocks=blocks)
runner.drive(G.design_spec(c), body, n, seed)
for k, v in sorted(stats.items()): print("%6d %s" % (v, k))
if "-v" in sys.argv:
    for k, (sp, msg) in sorted(examples.items()):
        if k.isupper() or "MISMATCH" in k or "EXC" in k or "DIFF" in k or "CRASH" in k:
            print("==", k, msg); print(json.dumps(sp))
