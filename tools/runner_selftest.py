#!/venv/bin/python
"""Self-test of vp/runner.run_jobs: runaway case, dying child, allocation beyond the limit, stray timeout outside a case.
usage: PYTHONPATH=/verif tools/runner_selftest.py    (exit 0 = all behaviours as documented in DESIGN.md 11.6)"""
import os
import sys
import time

sys.path.insert(0, os.path.join(os.path.dirname(os.path.abspath(__file__)), ".."))
from vp import env, runner  # noqa: E402
from hypothesis import strategies as st  # noqa: E402


def job(arg):
    kind, n = arg
    acc = runner.track(runner.Acc())
    state = {"i": 0}

    def body(x):
        i = runner._TRACK["index"] - 1          # index of the generated case, stable across restarts
        if i == 5 and kind == "busy":
            import signal
            signal.pthread_sigmask(signal.SIG_BLOCK, [signal.SIGALRM])
            while True:
                pass
        if i == 5 and kind == "exit":
            os._exit(7)
        if i == 5 and kind == "alloc":
            b = bytearray(20 << 30)
            b[0] = 1
        acc.case({"x": x, "i": i}, True, ["case"])
        if i == 7 and kind == "stray":
            state["stray"] = True
    # the index counter must survive a restart: guarded_body skips already evaluated cases before calling body
    def body2(x):
        body(x)
    if kind == "stray":
        orig = runner.guarded_body

        def gb(b):
            w = orig(b)

            def ww(case):
                w(case)
                if runner._TRACK["index"] == 8 and not runner._TRACK["poison"]:
                    raise env.CaseTimeout()
            return ww
        runner.guarded_body = gb
    runner.drive(st.integers(0, 10 ** 6), body2, n, 1)
    return acc


def main():
    ok = True
    for kind in ("plain", "busy", "exit", "alloc", "stray"):
        t = time.time()
        acc = runner.run_jobs(job, [(kind, 20)], nproc=1, hard_case_s=3)
        line = "%s: evaluations=%d inconclusive=%d classes=%s harness=%d %.1fs" % (
            kind, acc.evaluations, acc.inconclusive, dict(acc.classes), len(acc.harness_errors), time.time() - t)
        print(line)
        if acc.harness_errors:
            print("   ", acc.harness_errors[0][-600:])
            ok = False
        if kind == "plain" and (acc.evaluations != 20 or acc.inconclusive):
            ok = False
        if kind != "plain" and not (acc.inconclusive >= 1 and acc.evaluations >= 18):
            ok = False
    print("runner self-test", "ok" if ok else "FAILED")
    return 0 if ok else 1


if __name__ == "__main__":
    sys.exit(main())
