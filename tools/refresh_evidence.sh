#!/bin/bash
# Runs every registered quick check once at VERIF_SEED (default 1) against /repo and lets each rewrite evidence/<Cnn>.json;
# then states the class floors.  Run it on an otherwise idle machine before committing evidence.
cd "$(dirname "$0")/.."
unset VERIF_EVIDENCE_DIR VERIF_STRICT_GEN
export VERIF_SEED="${VERIF_SEED:-1}"
RC=0
for C in C01 C02 C03 C04 C05 C06 C07 C08 C09 C10 C11 C12 C13 C14 C15 C16 C17 C18 C19 C20 C21 C22 C23 C24 C25 C26 C27 C28 C29; do
  OUT="$(./check "$C" --tier quick 2>&1)"; R=$?
  echo "== $C exit=$R $(echo "$OUT" | grep '^property=' | tail -1)"
  echo "$OUT" | grep -E '^(VIOLATION|  bucket=|HARNESS)' | cut -c1-300 | head -6
  [ $R -ne 0 ] && RC=1
done
tools/class_floor.py | grep -v ': ok'
exit $RC
