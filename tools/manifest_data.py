"""Per-property claims.  Edited by hand; tools/gen_manifest.py turns it into MANIFEST.json."""

NOTES = ("All checks are property-based tests / fuzzers driven by Hypothesis or exhaustive sweeps, see DESIGN.md. "
         "A run is a pure function of /repo's working tree and VERIF_SEED. Exit 2 means harness error (never a violation). "
         "known_findings.json lists genuine defects that were recorded rather than repaired and the fix: commits made in /repo.")

NOT_APPLICABLE = {}

CHECKS = {
    "C13": {
        "technique": "exhaustive parameter sweep + Hypothesis-drawn larger tuples against brute-force enumerators (bijection and count oracle)",
        "text": ("Every unranking function of combinatorics.py is run on ALL indices of every parameter tuple inside the tier's bound "
                 "(exhaustive within that bound, both PermutationMemo regimes) and compared with a brute-force enumeration written "
                 "independently: images distinct, legal, onto, count equal to the counting function. Hypothesis adds larger tuples "
                 "(incl. the q>=100 / first_n>=100 dispatch) with full or sampled index sets against an independent DP count. "
                 "Exhaustive inside the bound, sampled beyond it; this is the right level because the functions are pure and the space of small tuples is finite."),
        "note": "trusts the brute-force enumerators and DP count in vp/props/c13.py (they are cross-checked against each other); indices outside 0..N-1 are not part of the property",
    },
}
