"""Per-property claims.  Edited by hand; tools/gen_manifest.py turns it into MANIFEST.json."""

NOTES = ("All checks are property-based tests / fuzzers driven by Hypothesis or exhaustive sweeps, see DESIGN.md. "
         "A run is a pure function of /repo's working tree and VERIF_SEED. Exit 2 means harness error (never a violation). "
         "known_findings.json lists genuine defects that were recorded rather than repaired and the fix: commits made in /repo.")

NOT_APPLICABLE = {}

CHECKS = {
    "C13": {
        "technique": "exhaustive parameter sweep + Hypothesis-drawn larger tuples (index spaces beyond 2^64, runs of consecutive indices) against brute-force enumerators (bijection and count oracle)",
        "text": ("Every unranking function of combinatorics.py is run on ALL indices of every parameter tuple inside the tier's bound "
                 "(exhaustive within that bound, both PermutationMemo regimes) and compared with a brute-force enumeration written "
                 "independently: images distinct, legal, onto, count equal to the counting function. Hypothesis adds larger tuples "
                 "(incl. the q>=100 / first_n>=100 dispatch and sequences of up to 90 positions, i.e. index spaces far beyond 2^64) with full index sets or runs of "
                 "consecutive indices (around 2^31, 2^53, 2^64, both ends) against an independent DP count. "
                 "Exhaustive inside the bound, sampled beyond it; this is the right level because the functions are pure and the space of small tuples is finite."),
        "note": "trusts the brute-force enumerators and DP count in vp/props/c13.py (they are cross-checked against each other); indices outside 0..N-1 are not part of the property",
    },
    "C10": {
        "technique": "exhaustive (n,k,relation,numbering,assignment) sweep + Hypothesis multi-request cases; SAT under assumptions vs integer arithmetic; unique-extension by blocking",
        "text": ("combine_cnf_with_requests is run for every n<=8 (thorough 11), k<=n+4, EQ/LT/GT, three variable numberings, and the resulting "
                 "clauses are solved under each of the 2^n input assignments: satisfiable iff popcount REL k, and then exactly one extension to the "
                 "auxiliary variables. Hypothesis adds n<=40, arbitrary ids, k<=2n+2 and 1-3 simultaneous requests. Exhaustive inside the bound."),
        "note": "trusts pycryptosat as SAT oracle and Python integer arithmetic; n>=1",
    },
    "C11": {
        "technique": "Hypothesis recursive formula generator (+ atheris coverage-guided campaign in the thorough tier) against a truth-table evaluator; unique-extension SAT check for Tseitin variables",
        "text": ("Random formulas over Not/And/Or/If/Iff with empty lists, negative literals and recurring subformulas are converted by all three "
                 "converters; for all 32 assignments of the original variables the result is compared with an independent evaluator (Tseitin: exactly one "
                 "extension over the reported fresh range iff true; naive: equivalent, no new variable; switching: exists-fresh equivalent). cnf_to_json is "
                 "cross-checked on the Tseitin output. Sampled, not exhaustive."),
        "note": "formula variables lie below next_variable; naive conversion only for <=10 leaves (exponential by design)",
    },
    "C12": {
        "technique": "exhaustive width/saturation sweep + Hypothesis wider operands; SAT under assumptions vs integer sums; unique-extension by blocking",
        "text": ("half/full/saturate adders, ripple_carry, ripple_saturate and pop_count are built on three variable numberings for every width up to the "
                 "tier bound and solved under every input assignment: outputs decode to the arithmetic sum (saturating forms: exact below 2^(s-1), top bit "
                 "set at or above it) and every non-input variable is forced. Exhaustive inside the bound; Hypothesis samples up to 40 inputs."),
        "note": "operands of equal width and width <= saturate_at, as at every call site; low bits of a saturated result are not judged",
    },
    "C27": {
        "technique": "Hypothesis clause-set/solution generator and the design generator; strict DIMACS parser written from the format as round-trip oracle; recording stand-ins for pycryptosat/pycmsgen/pyunigen; brute-force projected models for the iterate loop and the real samplers; files captured from real sampler runs on generated blocks",
        "text": ("For generated clause sets (gaps, repeated literals, support sizes across the 10-per-line boundary, optional cardinality request) the file "
                 "the library writes is re-read by an independent strict parser: header counts, clause multiset, c ind lines; parse_cnf_file and the "
                 "pycryptosat reader must recover the same; scripted solver assignments must round-trip through cryptominisat_solve, build_solution and "
                 "sample_uniform; update_file must add exactly the negated support assignment (truth-table check) and sample_non_uniform's loop must return "
                 "exactly the brute-force projected models; the pycmsgen / pyunigen wrappers must hand the file's clauses and sampling set to the sampler and spell its "
                 "assignment, and the real CMSGen/UniGen samplers must return projected models on small formulas. Design level: for generated blocks the file at every "
                 "IterateSATGen iteration and at the CMSGen/UniGen call is captured and judged the same way against build_cnf(block). Sampled."),
        "note": "support variables are 1..support and all occur in the formula; non-empty clauses; the external solvers themselves are trusted",
    },
    "C28": {
        "technique": "Hypothesis clause/request generator; own OPB parser+evaluator; exhaustive assignment comparison against the SAT encoding (differential) and against arithmetic",
        "text": ("For generated clause sets over <=8 variables with 0-3 EQ/LT/GT requests the OPB text is parsed by an independent pseudo-Boolean "
                 "evaluator and compared, on every assignment, with satisfiability of combine_cnf_with_requests under that assignment and with the "
                 "arithmetic meaning; blocking constraints of sample_ilp.update_file are checked on every support assignment. All assignments per case; cases sampled."),
        "note": "Gurobi itself is not run; the property concerns the text",
    },
}

CHECKS.update({
    "C03": {
        "technique": "Hypothesis design-spec generator; projected model enumeration of build_cnf(block) with pycryptosat; unique-extension check by blocking the auxiliary part",
        "text": ("Generated designs (basic/derived factors with within/transition/window derivations, weights, all constraint kinds, CrossBlock) are compiled "
                 "with build_cnf; for up to 200 (thorough 1500) projected models of the trial-sequence variables the remaining variables of the formula must "
                 "admit exactly one extension. Sampled designs; per design the checked models are spread over all enumerated ones."),
        "note": "trusts pycryptosat; designs with a Window start earlier than the default are excluded (known finding F12); all block kinds (CrossBlock, MultiCrossBlock, Repeat, Merge, Nest) and constructed feature-interaction scenarios are generated",
    },
    "C07": {
        "technique": "Hypothesis design-spec generator; differential exhaustion IterateSATGen (formula models + the real iterate loop) vs RandomGen, compared as sets of level-name sequences",
        "text": ("For generated designs accepted by both strategies the complete set of sequences of the compiled formula (decoded like the samplers decode) and "
                 "the complete set RandomGen returns when asked for more than exist are compared by level names; for small sets the real IterateSATGen loop is "
                 "run as well. No reference model is involved. Sampled designs, exhaustive per design."),
        "note": "designs bounded by trial count and number of sequences (larger ones are discarded as too-large and counted); known findings F09a, F09b, F12, F25 are excluded by shape",
    },
    "C08": {
        "technique": "Hypothesis design-spec generator biased to geometric edges; exception bucketing by (type, innermost sweetpea frame); UniGen in a forked child to observe process exits",
        "text": ("Every generated design the constructor accepts is synthesized with IterateSATGen, RandomGen, CMSGen and UniGen; any exception other than the external "
                 "sampler's documented UnigenError, a non-list result or a vanished child process is a violation, bucketed by root cause. Sampled."),
        "note": "SMGen is covered by C29; constructor rejections are outside the property; open findings F09a, F09b, F12 are excluded by shape and reported as KNOWN-FINDING",
    },
    "C14": {
        "technique": "Hypothesis design-spec generator; bijection check of block.get_variable against the documented applicability rule; decode round-trip of generated one-hot assignments",
        "text": ("For generated designs all applicable (trial, factor, level) triples (applicability from the documented start/stride rule) must map injectively onto "
                 "1..variables_per_sample, support variables lie inside that range, and Gen.decode of six generated one-hot assignments per design returns exactly the "
                 "chosen names with '' where a factor does not apply. Sampled."),
        "note": "applicability from the documented start/stride rule (vp/ref.py); all block kinds incl. sustained factors of Nest; designs beyond the tier's trial bound are discarded and counted",
    },
    "C20": {
        "technique": "Hypothesis generator of blocks with arbitrary level-name values and of arbitrary well-formed experiments; round-trip through experiments_to_tuples/dicts and csv.reader",
        "text": ("Blocks with text/integer level names (commas, quotes, line breaks), weights (hidden factors) and an optional derived factor; experiments either synthesized "
                 "(RandomGen, IterateSATGen) or filled cell by cell. Tuples, dicts and the CSV files read back must reproduce every cell in design order; synthesized experiments "
                 "must have exactly the declared factor names as keys. Sampled."),
        "note": "CSV cells compared as str(value); the csv module's quoting is trusted",
    },
    "C21": {
        "technique": "Hypothesis generator of experiments, factor selections and trial selections; stdout table parser; recount oracle",
        "text": ("For generated experiments (1-3), factor selections (via block or factors=) and trial selections (None or distinct indices) the printed tables are parsed: one "
                 "row per level combination, frequency equals an independent recount over the selected trials, proportion equals 100*frequency/selected within 1e-9. Sampled."),
        "note": "names are tokens without blanks or '|' so that the table can be parsed unambiguously",
    },
})

REFNOTE = ("trusts vp/ref.py (independent reference of the documented semantics, self-tested on every run against 26 designs with the maintainers' "
           "expected counts); designs whose documented meaning is ambiguous are discarded and counted per reason; CrossBlock, MultiCrossBlock, Repeat, Merge and Nest designs plus constructed feature-interaction scenarios; ")
CHECKS.update({
    "C01": {
        "technique": "Hypothesis design-spec generator; reference validity predicate applied to every model of the compiled formula (capped) and to everything IterateSATGen, CMSGen, UniGen, IterateGen/UniformGen return",
        "text": ("Soundness of the formula-based samplers: for generated designs every projected model of build_cnf(block) (up to 400, thorough 4000), decoded like the samplers "
                 "decode, and every sequence the five strategies return must satisfy the reference validity predicate (trial count, levels, derivations, crossing with weights, "
                 "all constraint kinds). UniGen/UniformGen run in a forked child. Sampled designs; all models per design up to the cap."),
        "note": REFNOTE + "open findings F09a, F12 excluded by shape",
    },
    "C02": {
        "technique": "Hypothesis design-spec generator; multiset equality between exhausted IterateSATGen (formula models and the real iterate loop) and the reference enumeration",
        "text": ("Completeness and exactness: for generated designs with few enough valid sequences the reference enumerates all valid sequences with multiplicities; the decoded "
                 "projected models of the formula, and for small sets the real synthesize_trials(IterateSATGen, more than exist) result, must be the same multiset; unsatisfiable designs "
                 "must give []. Sampled designs, exhaustive per design."),
        "note": REFNOTE + "open findings F09a, F12 excluded by shape",
    },
    "C04": {
        "technique": "Hypothesis design-spec generator; reference validity predicate on RandomGen output (and IterateGen/UniformGen when they delegate)",
        "text": ("Every sequence RandomGen returns (12, thorough 20 per design) and the ones IterateGen/UniformGen return when they delegate to it must satisfy the reference "
                 "validity predicate; classes track designs that need rejection and crossed within-trial derived factors. Sampled."),
        "note": REFNOTE + "open findings F09a, F09b, F12 excluded by shape; default acceptable error 0",
    },
    "C06": {
        "technique": "Hypothesis design-spec generator; multiset equality between exhausted RandomGen and the reference enumeration; reported solution_count vs reference count on single-round designs without rejection",
        "text": ("RandomGen asked for 3 more sequences than exist must terminate and return exactly the reference multiset; for single-round designs without complex windows or "
                 "rejection-enforced constraints metrics['solution_count'] must equal the number of valid sequences. A time-out is inconclusive. Sampled designs, exhaustive per design."),
        "note": REFNOTE + "open findings F09a, F09b, F12 excluded by shape",
    },
    "C09": {
        "technique": "Hypothesis design-spec generator with drawn request sizes; count and multiplicity oracle from the reference enumeration",
        "text": ("For IterateSATGen, RandomGen and IterateGen and a requested count drawn from {1, n-1, n, n+3}: exactly min(requested, available) sequences, no printing more often than "
                 "its reference multiplicity (copies of weighted levels outside the crossing), the full multiset when exhausting. Sampled."),
        "note": REFNOTE + "open findings F09a, F09b, F12 excluded by shape",
    },
    "C15": {
        "technique": "Hypothesis design-spec generator with planted table defects (overlap / gap / none) at drawn window inputs; constructor, error-report and per-trial derivation oracles",
        "text": ("Derived factors are total lookup tables; one window input of one factor is made to match two levels (constructor must raise), no level (IterateSATGen and RandomGen must "
                 "return [] and report the unmatched input) or left intact (every returned sequence carries at each applicable trial the level the table selects and '' elsewhere). Sampled."),
        "note": "planted inputs are tuples of existing level names; None-padded inputs of early starts are excluded with finding F12; applicability from the documented start/stride rule",
    },
    "C16": {
        "technique": "Hypothesis design-spec generator; documented trial-count arithmetic (reference) vs trials_per_sample(); length of every column returned by four strategies",
        "text": ("block.trials_per_sample() must equal the documented arithmetic (weighted crossing size, exclusions/impossible combinations, preamble, MinimumTrials, maximum over "
                 "crossings) and every sequence from IterateSATGen, RandomGen, CMSGen, UniGen must have that many entries for every factor. No known-finding exclusion is needed. Sampled."),
        "note": REFNOTE + "SMGen lengths are judged under C29",
    },
    "C17": {
        "technique": "Hypothesis design-spec generator; candidates = reference-valid sequences, seeded perturbations (cell change, swap, rotation, corrupted derived cell) and random well-formed sequences; verdict equivalence with the reference",
        "text": ("sample_mismatch_experiment(block, seq) == {} must hold exactly when the reference validity predicate accepts seq, for valid sequences, systematically perturbed ones and "
                 "random well-formed ones; an exception from the checker on a well-formed candidate is a violation. Sampled; both verdicts required for a case to count."),
        "note": REFNOTE + "open findings F09a, F12 excluded by shape",
    },
    "C23": {
        "technique": "Hypothesis design-spec generator biased to weights; metamorphic copy-expanded twin built through the public API (set equality for crossed, multiset equality for uncrossed weighted factors) plus reference multiset",
        "text": ("Each weighted basic factor is rewritten into w separately named copies plus a within-trial factor reporting the original name; exhausted through the compiled formula, the "
                 "projection of the twin must equal the weighted design as a set (crossed: and no multiplicities) or as a multiset (outside the crossing); the reference multiset is "
                 "compared where unambiguous. Sampled designs, exhaustive per design."),
        "note": "weights on derived levels and Sequential/LatinSquare over weighted factors are outside the property text / ambiguous and excluded; weighted derived levels are compared with the reference only",
    },
    "C24": {
        "technique": "Hypothesis generator of (law, left block tree); right side derived by the documented equivalence; differential comparison of acceptance, trial count and exhausted multisets",
        "text": ("MultiCrossBlock vs Merge of CrossBlocks (all modes and alignments), Repeat vs Merge(REPEAT, EQUAL_PREAMBLE), Repeat(b, []) and Merge([b]) vs b, CrossBlock vs "
                 "single-crossing MultiCrossBlock(WEIGHT): both sides accepted or both refused, equal trials_per_sample, equal multisets of sequences of the compiled formulas. "
                 "No reference model. Sampled."),
        "note": "crossings of one MultiCrossBlock are generated disjoint (Merge documents distinct crossing factors); Repeat constraints never contain Exclude",
    },
})

CHECKS.update({
    "C05": {
        "technique": "exact draw-tree enumeration: the random module seen by RandomGen is scripted and ALL sequences of randrange outcomes of one candidate are explored with Fraction probabilities; Hypothesis generates the designs (random designs, feature-interaction scenarios, round-structure skeletons)",
        "text": ("For generated designs whose complete draw tree has at most 5000 (thorough 40000) leaves, RandomGen.sample(block, 1) is re-run for every script of randrange outcomes; "
                 "leaf probabilities must sum to 1 (self-check), every accepted candidate must be a valid sequence, every valid sequence must be reachable, and probability mass divided by the "
                 "reference multiplicity must be identical for all sequences - exact uniformity of one requested sample, not a statistical test. Sampled designs, exhaustive per design."),
        "note": REFNOTE + "trusts random.randrange to be uniform; open findings F09a, F09b, F10 (non-uniform leftover rounds), F12 excluded by shape",
    },
    "C18": {
        "technique": "Hypothesis-generated construction histories over a pool of shared factor/constraint objects; differential comparison with twins built from fresh objects",
        "text": ("2-4 blocks (CrossBlocks with different crossings, then optionally Repeat/Merge/Nest over earlier ones) are built in generated order from ONE set of factor and constraint "
                 "objects; afterwards every block is compared with a twin built from fresh objects: trial count, exhausted multiset of the compiled formula, mismatch verdicts on the twin's "
                 "sequences and trial-swapped variants. No reference model. Sampled histories."),
        "note": "the history is a Hypothesis-drawn list of constructions (one shrinkable value) rather than a RuleBasedStateMachine because rule arguments do not depend on earlier results",
    },
    "C19": {
        "technique": "Hypothesis-generated call histories (3-8 library calls) on one block with optional continuous factors; snapshot invariant after every step; reference validity of every synthesize result",
        "text": ("Histories of synthesize_trials (4 strategies), print_experiments, tabulate_experiments, save_experiments_csv, experiments_to_tuples/dicts and sample_mismatch_experiment "
                 "on one block: after every step the block's structural snapshot (design, orig/act design, crossings, continuous factors, trial count, constraints, variable count) must be "
                 "unchanged, every later synthesize must succeed, return valid sequences and the same columns as the first. Sampled histories."),
        "note": REFNOTE + "an exception from a non-synthesizing call is recorded as a class, not judged",
    },
    "C22": {
        "technique": "Hypothesis generator of continuous-factor specs (distributions, pure catalogue functions, windows, cumulative, constraints) on top of discrete designs; recomputation oracle from the returned values",
        "text": ("Per returned sequence: one numeric value per trial per continuous factor, every ContinuousConstraint true at every trial, each derived continuous value equal to the catalogue "
                 "function applied to the returned same-trial values and to the documented ContinuousFactorWindow (all NaN before start / on skipped strides, single NaN for negative indices), "
                 "cumulative sums per experiment, and the discrete part valid per the reference. Sampled; 4 strategies."),
        "note": REFNOTE + "catalogue functions are pure and NaN-aware; relative tolerance 1e-9",
    },
    "C29": {
        "technique": "Hypothesis generator of single-crossing designs and of 1-3-design histories run with SMGen in one forked, killable child per case; timer threshold as schedule dimension; reference validity oracle",
        "text": ("SMGen either raises its unsupported-feature error (counted) or every returned sequence must satisfy the reference validity predicate including the trial count; histories of "
                 "several designs in one process exercise its module-global state, EXEC_TH in {default, 0.05 s, 0.001 s} moves the timer before/during/after the search. Other exceptions "
                 "and time-outs are classes, not verdicts. Sampled."),
        "note": REFNOTE + "interleavings limited to when the timer fires; a child that does not answer in time is inconclusive",
    },
})

CHECKS.update({
    "C25": {
        "technique": "Hypothesis generator of Nest trees (depth 1-2) over CrossBlocks; structural predicate written from the property text + reference compositional validity on every formula model and sampler output + exhaustion equality + associativity differential",
        "text": ("For generated Nest(outer, inner) designs without preamble trials: trials_per_sample equals outer x inner; every model of the compiled formula (capped) and every sequence "
                 "from IterateSATGen, RandomGen, CMSGen splits into groups of the inner length with the outer crossed factors constant per group, the outer crossing satisfied over the groups "
                 "and each group a valid inner sequence; small designs are exhausted and compared with the reference enumeration; Nest(Nest(a,b),c) and Nest(a,Nest(b,c)) must have equal "
                 "trial counts and exhausted multisets. Sampled."),
        "note": "Nest with preamble trials, constraints on sustained factors, outer constraints other than Exclude and Excludes acting across members are ambiguous in the documentation and excluded (counted); open findings F09a, F12 excluded by shape",
    },
    "C26": {
        "technique": "Hypothesis generator (stratified skeleton over preamble x repetitions x constraint kind x placement {member, combinator, both} x target, plus random combinator designs) of Repeat/Merge/Nest with constraints placed on member blocks and/or on the combinator; reference scoping (repetition windows incl. preamble) as validity and exhaustion oracle; metamorphic member-vs-combinator placement",
        "text": ("Member-block constraints must hold in every repetition window of that block (its length, stepping by length minus preamble), combinator constraints over the whole sequence: "
                 "checked on every model of the compiled formula (capped), on IterateSATGen/RandomGen output, and by exhaustion equality with the reference when small. Metamorphic: moving an "
                 "AtMostKInARow from the member block to the combinator may only remove sequences, and must remove some exactly when the reference distinguishes the placements. Sampled."),
        "note": "count-type constraints on a truncated final repetition, constraints on late-starting derived factors of a member block, order constraints inside member blocks and constraints on sustained factors are ambiguous and excluded (counted)",
    },
})
