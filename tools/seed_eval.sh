#!/bin/bash
# usage: tools/seed_eval.sh <seed dir containing patch.diff demo.py meta.json> <name> [check ids...]
# Confirms a seeded change in a scratch worktree (suite passes, demo fails with / passes without), then runs checks against it.
SRC="$(readlink -f "$1")"; NAME="$2"; shift 2
WT=/tmp/sv/$NAME
rm -rf "$WT"; mkdir -p /tmp/sv
git -C /repo worktree add -q "$WT" HEAD || exit 3
trap 'git -C /repo worktree remove --force "$WT" 2>/dev/null; rm -rf "$WT"' EXIT
export UNIGEN_DOWNLOAD_IF_MISSING=False
cd "$WT"
cp "$SRC/demo.py" /tmp/sv/$NAME.demo.py
PYTHONPATH="$WT" timeout 600 /venv/bin/python /tmp/sv/$NAME.demo.py >/tmp/sv/$NAME.demo0.log 2>&1; D0=$?
git apply "$SRC/patch.diff" || { echo "SEED $NAME: PATCH-DOES-NOT-APPLY"; exit 3; }
PYTHONPATH="$WT" timeout 600 /venv/bin/python /tmp/sv/$NAME.demo.py >/tmp/sv/$NAME.demo1.log 2>&1; D1=$?
SUITE="$(cd "$WT" && /venv/bin/python -m pytest -q -p no:cacheprovider -n 8 2>&1 | tail -1)"
echo "SEED $NAME: demo-without-patch exit=$D0 demo-with-patch exit=$D1 suite: $SUITE"
cd /verif
for C in "$@"; do
  START=$(date +%s)
  OUT="$(VERIF_REPO="$WT" VERIF_SHRINK_S="${VERIF_SHRINK_S:-10}" VERIF_EVIDENCE_DIR=/tmp/sv/ev ./check "$C" --tier "${TIER:-quick}" 2>&1)"; RC=$?
  END=$(date +%s)
  echo "SEED $NAME check=$C exit=$RC secs=$((END-START)) $(echo "$OUT" | grep -c '^VIOLATION') violation-line(s)"
  echo "$OUT" | grep -E '^(VIOLATION|  bucket=|HARNESS)' | cut -c1-300 | head -6
done

