#!/bin/bash
# usage: tools/mutation_run.sh <patch.diff> <Cnn> [more Cnn ...]      (development tool, not a registered check)
# Copies /repo to a scratch dir, applies the patch, runs the quick check(s) against the copy, deletes the copy.
set -u
PATCH="$(readlink -f "$1")"; shift
SCR="$(mktemp -d /tmp/vp-mut-XXXXXX)"
trap 'rm -rf "$SCR"' EXIT
rsync -a --exclude .git --exclude '__pycache__' --exclude '*.egg-info' /repo/ "$SCR/repo/"
( cd "$SCR/repo" && patch -p1 -s < "$PATCH" ) || { echo "PATCH-FAILED $PATCH"; exit 3; }
cd "$(dirname "$0")/.."
for C in "$@"; do
  START=$(date +%s)
  OUT="$(VERIF_REPO="$SCR/repo" VERIF_SHRINK_S="${VERIF_SHRINK_S:-10}" ./check "$C" --tier "${TIER:-quick}" 2>&1)"; RC=$?
  END=$(date +%s)
  echo "MUTANT $(basename "$PATCH") check=$C exit=$RC secs=$((END-START)) $(echo "$OUT" | grep -c '^VIOLATION') violation-line(s)"
  echo "$OUT" | grep -E '^(VIOLATION|  bucket=|HARNESS)' | head -5
done
if [ "${RUN_SUITE:-0}" = 1 ]; then
  ( cd "$SCR/repo" && /venv/bin/python -m pytest -q -x -p no:cacheprovider -n 8 2>&1 | tail -3 )
fi
